#![no_main]
//! libFuzzer target "spaces": decodes the bytes with pv::fuzzdec and runs the semantic oracles of the
//! properties it serves inside the target; listed known findings are tolerated (counted elsewhere).
use libfuzzer_sys::fuzz_target;
use std::sync::OnceLock;

static RUN: OnceLock<pv::engine::Run> = OnceLock::new();

fuzz_target!(|data: &[u8]| {
    let run = RUN.get_or_init(|| {
        pv::engine::install_panic_hook();
        let _ = pv::ucd::db();
        pv::fuzzdec::tolerant_run()
    });
    if let Err((id, v)) = pv::fuzzdec::fuzz_one("spaces", data, run) {
        eprintln!("FUZZ-VIOLATION property={id} expected: {} observed: {}", v.expected, v.observed);
        std::process::abort();
    }
});
