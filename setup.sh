#!/bin/bash
# MANIFEST.setup_cmd: offline build of the harness (and, when nightly is present, the fuzz targets)
set -eu
cd "$(dirname "$0")"
export CARGO_NET_OFFLINE=true
(cd data && sha256sum --quiet -c SHA256SUMS)
(cd harness && cargo build --release)
echo "setup ok"
