#!/bin/bash
# MANIFEST.setup_cmd: offline build of the harness (and, when nightly is present, the fuzz targets)
set -eu
cd "$(dirname "$0")"
export CARGO_NET_OFFLINE=true
(cd data && sha256sum --quiet -c SHA256SUMS)
(cd harness && cargo build --release)

# fuzz targets (thorough tier); a missing nightly toolchain only disables the libFuzzer stage
if cargo +nightly fuzz --version >/dev/null 2>&1; then
  (cd fuzz && cargo +nightly fuzz build --fuzz-dir . >/dev/null 2>&1 && echo "fuzz targets built") || echo "fuzz targets NOT built (thorough tier will skip the libFuzzer stage)"
fi
echo "setup ok"
