//! Byte -> structured-argument decoders shared by the libFuzzer targets (/verif/fuzz) and
//! `pv fuzzcase` (replay of a saved artifact on the stable toolchain).
use crate::engine::{Check, Local, Run, Violation};
use crate::gens::pools;
use crate::model::{Prof, PROFS};
use crate::props;
use serde_json::json;

/// 32 characters reachable with one byte below 0x20
const SPECIAL: [u32; 32] = [
    0x20, 0xa0, 0x1680, 0x2003, 0x3000, 0x205f, 0x200c, 0x200d, 0x94d, 0xb7, 0x375, 0x5f3, 0x30fb, 0x660, 0x6f0, 0x5d0, 0x5b8, 0x627, 0x64e, 0x661, 0xe9, 0x301, 0x1c5,
    0x130, 0x3a3, 0xff21, 0xff76, 0xa8, 0x1d11e, 0x10400, 0x13a0, 0x212b,
];

/// Decode bytes into characters. 0x7f splits the input into several strings.
pub fn decode_strings(data: &[u8]) -> Vec<String> {
    let p = pools();
    let mut out = vec![String::new()];
    // UTF-32 mode (first byte 0xFF): every 4 bytes are one little-endian code point, so that libFuzzer's comparison
    // tracing (-use_value_profile, table of recent compares) can copy character constants the code compares against
    // straight into the input; U+007F splits strings as in the compact mode
    if data.first() == Some(&0xff) {
        for ch in data[1..].chunks(4) {
            let mut b = [0u8; 4];
            b[..ch.len()].copy_from_slice(ch);
            let v = u32::from_le_bytes(b) % 0x110000;
            if v == 0x7f {
                out.push(String::new());
                continue;
            }
            let v = if (0xd800..0xe000).contains(&v) { v - 0xd800 + 0x5d0 } else { v };
            out.last_mut().unwrap().push(char::from_u32(v).unwrap());
        }
        return out;
    }
    let mut i = 0;
    while i < data.len() {
        let b = data[i];
        i += 1;
        let c = match b {
            0x7f => {
                out.push(String::new());
                continue;
            }
            0x20..=0x7e => b as char,
            0x00..=0x1f => char::from_u32(SPECIAL[b as usize]).unwrap(),
            0x80..=0xbf => {
                let n = if i < data.len() { data[i] } else { 0 };
                i += 1;
                let idx = ((b as usize - 0x80) << 8 | n as usize) % p.general.len();
                p.general[idx]
            }
            _ => {
                let b1 = if i < data.len() { data[i] } else { 0 };
                let b2 = if i + 1 < data.len() { data[i + 1] } else { 0 };
                i += 2;
                let v = (((b as u32 & 0x3f) << 16) | (b1 as u32) << 8 | b2 as u32) % (0x110000 - 0x800);
                char::from_u32(if v >= 0xd800 { v + 0x800 } else { v }).unwrap()
            }
        };
        out.last_mut().unwrap().push(c);
    }
    out
}

/// bidi target: every pair of bytes picks (class, member)
pub fn decode_bidi(data: &[u8]) -> String {
    let by = &pools().by_bidi16;
    let mut s = String::new();
    for ch in data.chunks(2) {
        let cl = (ch[0] % 23) as usize;
        let m = &by[cl];
        if m.is_empty() {
            continue;
        }
        let k = if ch.len() > 1 { ch[1] as usize } else { 0 };
        s.push(m[k % m.len()]);
    }
    s
}

pub const TARGETS: [&str; 5] = ["ops", "spaces", "pipelines", "bidi", "csv"];

/// which property a violation found by a target is reported under
fn wrap(id: &str, r: Check) -> Result<(), (String, Violation)> {
    r.map_err(|v| (id.to_string(), v))
}

/// Evaluate one fuzz input; Err carries (property id, violation). When the environment names the property the campaign
/// serves (PV_FUZZ_SERVE=Cxx, set by ./check), only the sub-checks of THAT property are evaluated.
pub fn fuzz_one(target: &str, data: &[u8], run: &Run) -> Result<(), (String, Violation)> {
    static SERVE: std::sync::OnceLock<Option<String>> = std::sync::OnceLock::new();
    let serve = SERVE.get_or_init(|| std::env::var("PV_FUZZ_SERVE").ok());
    // a campaign that serves one property evaluates only that property's sub-checks: a violation of another property
    // would otherwise end every job before the served one is reached (the other property's own campaign reports it)
    if let (Some(id), "pipelines" | "spaces") = (serve.as_deref(), target) {
        return fuzz_one_inner(target, data, run, Some(id));
    }
    fuzz_one_inner(target, data, run, None)
}

/// `only`: evaluate only the sub-checks of that property
fn fuzz_one_inner(target: &str, data: &[u8], run: &Run, only: Option<&str>) -> Result<(), (String, Violation)> {
    let mut l = Local::default();
    let want = |id: &str| only.map_or(true, |o| o == id);
    match target {
        "ops" => {
            let v = decode_strings(data);
            let s = &v[0];
            let t = v.get(1).cloned().unwrap_or_else(|| s.chars().rev().collect());
            if want("C01") { wrap("C01", props::c01::check_string(s, &t, &mut l))?; }
            if data.len() >= 12 {
                let cp = u32::from_le_bytes([data[0], data[1], data[2], data[3]]);
                let off = usize::from_le_bytes([data[4], data[5], data[6], data[7], data[8], data[9], data[10], data[11]]);
                if want("C01") { wrap("C01", props::c01::check_numbers(cp, off, &mut l))?; }
            }
            Ok(())
        }
        "spaces" => {
            for s in decode_strings(data) {
                if want("C12") { wrap("C12", props::c12::check(Prof::Nick, &s, &mut l))?; }
                if want("C12") { wrap("C12", props::c12::check(Prof::Opaque, &s, &mut l))?; }
                if want("C06") { wrap("C06", props::c06::check(run, &s, &mut l))?; }
            }
            Ok(())
        }
        "pipelines" => {
            let v = decode_strings(data);
            for s in &v {
                if want("C04") { wrap("C04", props::c04::check(run, Prof::UserMapped, s, &mut l))?; }
                if want("C04") { wrap("C04", props::c04::check(run, Prof::UserPreserved, s, &mut l))?; }
                if want("C05") { wrap("C05", props::c05::check(run, s, &mut l))?; }
                if want("C10") { wrap("C10", props::c10::check(Prof::UserMapped, s, &mut l))?; }
                if want("C11") { wrap("C11", props::c11::check(Prof::UserPreserved, s, &mut l))?; }
                for p in PROFS {
                    if want("C08") { wrap("C08", props::c08::check(run, p, s, &mut l))?; }
                }
            }
            if v.len() >= 2 {
                // the second string also read as a list of rewrite operations applied to the first (partner that differs by
                // case / width / spacing / respelling only)
                let ops: Vec<(u8, u32)> = v[1].as_bytes().chunks(2).take(4).map(|c| (c[0], (*c.get(1).unwrap_or(&0) as u32).wrapping_mul(0x0101_0101))).collect();
                let partner = props::c07::variant(&v[0], &ops);
                if want("C07") {
                    for p in PROFS {
                        wrap("C07", props::c07::check_pair(run, p, &v[0], &partner, &mut l))?;
                    }
                }
                for p in PROFS {
                    if want("C07") { wrap("C07", props::c07::check_pair(run, p, &v[0], &v[1], &mut l))?; }
                }
                if v.len() >= 3 {
                    for p in PROFS {
                        if want("C07") { wrap("C07", props::c07::check_laws(run, p, &v[0], &v[1], &v[2], &mut l))?; }
                    }
                }
            }
            Ok(())
        }
        "bidi" => {
            let s = decode_bidi(data);
            if want("C09") { wrap("C09", props::c09::check(run, Prof::UserMapped, &s, &mut l))?; }
            if want("C09") {
                wrap("C09", props::c09::check(run, Prof::UserPreserved, &s, &mut l))?;
            }
            Ok(())
        }
        "csv" => {
            let text = String::from_utf8_lossy(data);
            for line in text.split('\n') {
                if want("C17") { wrap("C17", props::c17::check_line_text(line, &mut l))?; }
            }
            Ok(())
        }
        _ => Err(("INFRA".into(), Violation::new(json!({"target": target}), "known fuzz target", "unknown"))),
    }
}

/// a Run with every listed known-finding signature active (the campaign must not rediscover them forever)
pub fn tolerant_run() -> Run {
    let p = crate::ucd::verif_dir().join("known_findings.json");
    let mut sigs = Vec::new();
    if let Ok(t) = std::fs::read_to_string(&p) {
        if let Ok(v) = serde_json::from_str::<serde_json::Value>(&t) {
            if let Some(a) = v.get("known").and_then(|k| k.as_array()) {
                for e in a {
                    if let Some(s) = e.get("signature").and_then(|s| s.as_str()) {
                        if !sigs.contains(&s.to_string()) {
                            sigs.push(s.to_string());
                        }
                    }
                }
            }
        }
    }
    Run::new("FUZZ", crate::engine::Tier::Thorough, 1, sigs)
}
