use pv::engine::{self, Run, Tier, Violation};
use serde_json::{json, Value};
use std::path::PathBuf;

fn usage() -> ! {
    eprintln!("usage: pv check <Cxx> [--tier quick|thorough]\n       pv replay <Cxx> <file>\n       pv child <name> ...");
    std::process::exit(2)
}

fn load_known(id: &str) -> Vec<Value> {
    let p = pv::ucd::verif_dir().join("known_findings.json");
    let Ok(t) = std::fs::read_to_string(&p) else { return vec![] };
    let v: Value = serde_json::from_str(&t).unwrap_or_else(|e| {
        eprintln!("INFRA: known_findings.json does not parse: {e}");
        std::process::exit(2)
    });
    v.get("known")
        .and_then(|k| k.as_array())
        .map(|a| a.iter().filter(|e| e.get("property").and_then(|p| p.as_str()) == Some(id)).cloned().collect())
        .unwrap_or_default()
}

fn write_found(run: &Run, v: &Violation) -> PathBuf {
    let dir = pv::ucd::verif_dir().join("replays/found");
    std::fs::create_dir_all(&dir).ok();
    let body = json!({"property": run.id, "case": v.case, "expected": v.expected, "observed": v.observed, "seed": run.seed});
    let h = engine::hash64(&body.to_string());
    let p = dir.join(format!("{}-{:016x}.json", run.id, h));
    std::fs::write(&p, serde_json::to_string_pretty(&body).unwrap()).expect("write replay");
    p
}

fn main() {
    let args: Vec<String> = std::env::args().collect();
    if args.len() < 3 {
        usage();
    }
    engine::install_panic_hook();
    match args[1].as_str() {
        "check" => {
            let id = args[2].clone();
            let mut tier = match std::env::var("VERIF_TIER").as_deref() {
                Ok("thorough") => Tier::Thorough,
                _ => Tier::Quick,
            };
            let mut i = 3;
            while i < args.len() {
                match args[i].as_str() {
                    "--tier" => {
                        tier = match args.get(i + 1).map(|s| s.as_str()) {
                            Some("quick") => Tier::Quick,
                            Some("thorough") => Tier::Thorough,
                            _ => usage(),
                        };
                        i += 2;
                    }
                    "quick" => { tier = Tier::Quick; i += 1; }
                    "thorough" => { tier = Tier::Thorough; i += 1; }
                    _ => usage(),
                }
            }
            let mut seed: u64 = std::env::var("VERIF_SEED").ok().and_then(|s| s.trim().parse::<i64>().ok()).map(|x| x as u64).unwrap_or(1);
            if seed == 0 {
                seed = 0x5eed;
            }
            std::process::exit(check(&id, tier, seed));
        }
        "replay" => {
            if args.len() < 4 {
                usage();
            }
            let id = args[2].clone();
            let run = Run::new(&id, Tier::Quick, 1, vec![]); // strict: no known signatures tolerated
            let t = std::fs::read_to_string(&args[3]).unwrap_or_else(|e| {
                eprintln!("INFRA: cannot read {}: {e}", args[3]);
                std::process::exit(2)
            });
            let v: Value = serde_json::from_str(&t).expect("replay file json");
            let case = v.get("case").cloned().unwrap_or(v);
            let _ = pv::ucd::db();
            match engine::guard(|| pv::props::replay(&id, &run, &case)) {
                Ok(Ok(())) => {
                    println!("replay {}: property {} holds on this case", args[3], id);
                    std::process::exit(0)
                }
                Ok(Err(vi)) => {
                    println!("expected: {}\nobserved: {}", vi.expected, vi.observed);
                    println!("VIOLATION property={} replay={}", id, args[3]);
                    std::process::exit(1)
                }
                Err(p) => {
                    println!("observed: panic: {p}");
                    println!("VIOLATION property={} replay={}", id, args[3]);
                    std::process::exit(1)
                }
            }
        }
        "fuzzcase" => {
            // pv fuzzcase <target> <artifact> [--strict]: replay a libFuzzer artifact through the same decoder.
            // prints the violation as JSON (one line, prefixed FUZZ-VIOLATION) and exits 1, or exits 0
            let target = args[2].clone();
            let data = std::fs::read(&args[3]).unwrap_or_else(|e| {
                eprintln!("INFRA: cannot read {}: {e}", args[3]);
                std::process::exit(2)
            });
            let strict = args.iter().any(|a| a == "--strict");
            let run = if strict { Run::new("FUZZ", Tier::Thorough, 1, vec![]) } else { pv::fuzzdec::tolerant_run() };
            let _ = pv::ucd::db();
            let res = match engine::guard(|| pv::fuzzdec::fuzz_one(&target, &data, &run)) {
                Ok(r) => r,
                Err(p) => Err(("C01".to_string(), Violation::new(json!({"op": "fuzz_artifact", "target": target, "bytes": data}), "no panic", format!("panic: {p}")))),
            };
            match res {
                Ok(()) => {
                    println!("fuzzcase {target}: no violation");
                    std::process::exit(0)
                }
                Err((id, v)) => {
                    println!("FUZZ-VIOLATION {}", json!({"property": id, "case": v.case, "expected": v.expected, "observed": v.observed, "target": target}));
                    std::process::exit(1)
                }
            }
        }
        "child" => {
            std::process::exit(pv::props::child(&args[2..]));
        }
        _ => usage(),
    }
}

fn check(id: &str, tier: Tier, seed: u64) -> i32 {
    let known = load_known(id);
    let sigs: Vec<String> = known.iter().filter_map(|k| k.get("signature").and_then(|s| s.as_str()).map(|s| s.to_string())).collect();
    let run = Run::new(id, tier, seed, sigs);
    let _ = pv::ucd::db();
    let _ = pv::gens::pools();
    eprintln!("[{id}] start tier={tier:?} seed={seed} threads={} (db ready in {:.1}s)", run.threads, run.start.elapsed().as_secs_f64());

    // 1. committed regressions
    let strict = Run::new(id, tier, seed, vec![]);
    let rdir = pv::ucd::verif_dir().join("replays/regress");
    let mut regress_n = 0;
    if let Ok(rd) = std::fs::read_dir(&rdir) {
        let mut files: Vec<PathBuf> = rd.filter_map(|e| e.ok().map(|e| e.path())).collect();
        files.sort();
        for f in files {
            let name = f.file_name().unwrap().to_string_lossy().to_string();
            if !name.starts_with(&format!("{id}-")) || !name.ends_with(".json") {
                continue;
            }
            let v: Value = serde_json::from_str(&std::fs::read_to_string(&f).unwrap()).expect("regress json");
            let case = v.get("case").cloned().unwrap_or(v);
            regress_n += 1;
            let res = match engine::guard(|| pv::props::replay(id, &strict, &case)) {
                Ok(r) => r,
                Err(p) => Err(Violation::new(case.clone(), "no panic", format!("panic: {p}"))),
            };
            if let Err(v) = res {
                println!("regression {name}: expected {} observed {}", v.expected, v.observed);
                run.violate(v);
            }
        }
    }
    run.extra("regress_replayed", json!(regress_n));

    // 1b. a violation found by the coverage-guided campaign (./check thorough runs libFuzzer first)
    if let Ok(f) = std::env::var("PV_FUZZ_VIOLATION") {
        if let Ok(t) = std::fs::read_to_string(&f) {
            if let Ok(v) = serde_json::from_str::<Value>(&t) {
                let case = v.get("case").cloned().unwrap_or(Value::Null);
                let res = match engine::guard(|| pv::props::replay(id, &run, &case)) {
                    Ok(r) => r,
                    Err(p) => Err(Violation::new(case.clone(), "no panic", format!("panic: {p}"))),
                };
                if let Err(v) = res {
                    println!("libFuzzer artifact: expected {} observed {}", v.expected, v.observed);
                    run.violate(v);
                }
            }
        }
    }
    if let Ok(f) = std::env::var("PV_FUZZ_STATS") {
        if let Ok(t) = std::fs::read_to_string(&f) {
            if let Ok(v) = serde_json::from_str::<Value>(&t) {
                run.extra("fuzz", v);
            }
        }
    }

    if let Ok(t) = std::env::var("PV_SECOND_BUILD") {
        if let Ok(v) = serde_json::from_str::<Value>(&t) {
            run.extra("second_build", v);
        }
    }

    // 2. exploration
    if !run.stopped() {
        pv::props::run(id, &run);
    }

    // 3. known findings: replay the witness strictly
    let mut known_lines = Vec::new();
    for k in &known {
        let what = k.get("what").and_then(|s| s.as_str()).unwrap_or("");
        if let Some(w) = k.get("witness") {
            let r = match engine::guard(|| pv::props::replay(id, &strict, w)) {
                Ok(r) => r,
                Err(p) => Err(Violation::new(w.clone(), "no panic", format!("panic: {p}"))),
            };
            if r.is_err() {
                known_lines.push(format!("KNOWN-FINDING: property={id} {what}"));
            }
        }
    }

    // 4. evidence + verdict
    let viols = run.violations.lock().unwrap().clone();
    let mut paths = Vec::new();
    for v in &viols {
        paths.push(write_found(&run, v));
    }
    write_evidence(&run, viols.len(), &known_lines);
    for l in &known_lines {
        println!("{l}");
    }
    if viols.is_empty() {
        println!("OK property={id} tier={tier:?} seed={seed} wall={:.1}s", run.start.elapsed().as_secs_f64());
        0
    } else {
        for (v, p) in viols.iter().zip(paths.iter()) {
            println!("case: {}", v.case);
            println!("expected: {}\nobserved: {}", v.expected, v.observed);
            println!("VIOLATION property={id} replay={}", p.display());
        }
        1
    }
}

fn write_evidence(run: &Run, violations: usize, known_lines: &[String]) {
    let m = run.merged.lock().unwrap();
    let secs: Vec<Value> = m
        .sections
        .iter()
        .map(|s| json!({"name": s.name, "cases": s.cases, "evaluations": s.evals, "exhaustive": s.exhaustive, "wall_s": (s.wall_s * 100.0).round() / 100.0}))
        .collect();
    let any_exh = m.sections.iter().any(|s| s.exhaustive);
    let mut cov = json!({
        "evaluations": m.evals,
        "cases": m.cases,
        "distinct_nontrivial": m.nt.len(),
        "nontrivial_seen": m.nt_seen,
        "distinct_count_capped": m.nt_capped,
        "rule": *run.rule.lock().unwrap(),
        "samples": m.samples,
        "exhaustive": any_exh && run.all_exhaustive.load(std::sync::atomic::Ordering::Relaxed),
        "exhaustive_sections": m.sections.iter().filter(|s| s.exhaustive).map(|s| s.name.clone()).collect::<Vec<_>>(),
        "sections": secs,
        "classes": m.labels,
        "known_hits": m.known,
        "known_finding_lines": known_lines,
        "oracle_skew": m.skew,
    });
    for (k, v) in &m.extra {
        cov[k] = v.clone();
    }
    let ev = json!({
        "property_id": run.id,
        "tier": if run.quick() { "quick" } else { "thorough" },
        "seed": run.seed,
        "level": "exploration",
        "coverage": cov,
        "assumptions": *run.assumptions.lock().unwrap(),
        "wall_s": (run.start.elapsed().as_secs_f64() * 100.0).round() / 100.0,
        "violations": violations,
    });
    let dir = pv::ucd::verif_dir().join("evidence");
    std::fs::create_dir_all(&dir).ok();
    let p = dir.join(format!("{}.json", run.id));
    std::fs::write(&p, serde_json::to_string_pretty(&ev).unwrap()).expect("write evidence");
}
