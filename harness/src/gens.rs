//! Pools of code points (ordered simple-first) and proptest strategies built on them.

use crate::ucd::{self, db, Dpv, N};
use proptest::collection::vec;
use proptest::prelude::*;
use proptest::strategy::BoxedStrategy;
use std::sync::OnceLock;

pub struct Pools {
    /// curated general pool, simple first
    pub general: Vec<char>,
    pub simple: Vec<char>,
    pub id_valid: Vec<char>,
    /// characters from the cased/composing/width/rtl pools that survive width mapping + IdentifierClass
    pub id_friendly: Vec<char>,
    pub ff_valid: Vec<char>,
    pub cased: Vec<char>,
    /// every character that has a lowercase mapping different from itself
    pub cased_all: Vec<char>,
    pub zs: Vec<char>,
    /// characters whose NFKC form contains a Zs character
    pub nfkc_space: Vec<char>,
    /// characters whose NFKC differs from themselves and which are valid in FreeformClass
    pub compat_ff: Vec<char>,
    pub width: Vec<char>,
    pub ctx: Vec<char>,
    pub norm: Vec<char>,
    /// every character with a canonical decomposition (16.0.0)
    pub decomposable: Vec<char>,
    /// characters that occur after the first position of some canonical decomposition (marks, but also the
    /// ccc=0 second halves of two-part vowel signs, Hangul V/T jamo, ...)
    pub compose_tail: Vec<char>,
    /// distinct first characters of canonical decompositions (the characters marks compose with)
    pub compose_head: Vec<char>,
    /// ccc=0 members of compose_tail together with the first characters they compose with
    pub starter_pairs: Vec<(char, char)>,
    pub rtl: Vec<char>,
    pub by_bidi16: Vec<Vec<char>>,
    pub by_id: Vec<Vec<char>>,
    pub by_ff: Vec<Vec<char>>,
    pub by_gc63: Vec<Vec<char>>,
    pub by_jt: Vec<Vec<char>>,
    pub virama: Vec<char>,
}

fn ch(v: &[u32]) -> Vec<char> {
    v.iter().filter_map(|c| char::from_u32(*c)).collect()
}

const SIMPLE: &[u32] = &[0x61, 0x20, 0x62, 0x41, 0x31, 0x6c, 0x7a, 0x5a, 0x2d, 0x2e, 0x5f, 0x21, 0x7e];

const CURATED: &[u32] = &[
    // 2-byte letters / marks / symbols
    0xe9, 0xdf, 0xe5, 0xc5, 0xc9, 0xb7, 0xa0, 0xaa, 0xb2, 0xbd, 0xa9, 0xad, 0xa8, 0x130, 0x131, 0x149, 0x17f, 0x1c4, 0x1c5, 0x1c6,
    0x1f0, 0x1f2, 0x2b0, 0x300, 0x301, 0x307, 0x323, 0x308, 0x327, 0x345, 0x34f, 0x375, 0x37e, 0x387, 0x391, 0x3a3, 0x3c3, 0x3c2,
    0x3b1, 0x3c0, 0x3d0, 0x3f4, 0x410, 0x430, 0x451, 0x587, 0x5d0, 0x5d1, 0x5b8, 0x5be, 0x5f3, 0x5f4, 0x627, 0x628, 0x629, 0x64e,
    0x626, 0x640, 0x660, 0x661, 0x669, 0x6f0, 0x6f1, 0x6f9, 0x6fd, 0x600, 0x60c, 0x66b, 0x66c, 0x6dd, 0x710, 0x7c0, 0x7fa,
    // 3-byte
    0x94d, 0x915, 0x930, 0x93c, 0x958, 0x9cd, 0xa872, 0xe01, 0xe33, 0xf0b, 0xf43, 0x1100, 0x1161, 0x11a8, 0x13a0, 0x13f4, 0x13f5,
    0x1680, 0x180e, 0x1e0b, 0x1e0d, 0x1e9e, 0x1e9b, 0x1f88, 0x1f80, 0x1fbc, 0x1fb3, 0x1fc1, 0x2000, 0x2001, 0x2002, 0x2003, 0x2004,
    0x2005, 0x2006, 0x2007, 0x2008, 0x2009, 0x200a, 0x200b, 0x200c, 0x200d, 0x200e, 0x200f, 0x2028, 0x2029, 0x202a, 0x202e, 0x202f,
    0x205f, 0x2060, 0x2066, 0x2069, 0x2070, 0x2074, 0x207a, 0x20ac, 0x2102, 0x2126, 0x212a, 0x212b, 0x2160, 0x2170, 0x2163, 0x24b6, 0x24d0,
    0x2460, 0x2adc, 0x2c00, 0x2c30, 0x3000, 0x3001, 0x3007, 0x302e, 0x3031, 0x303b, 0x3042, 0x304b, 0x3099, 0x309b, 0x30a2, 0x30ab,
    0x30fb, 0x30fc, 0x3131, 0x3300, 0x33a0, 0x4e00, 0x6f22, 0x9fa5, 0xac00, 0xac01, 0xd7a3, 0xa640, 0xab70, 0xf900, 0xfa0e, 0xfb00,
    0xfb01, 0xfb1d, 0xfb1e, 0xfb2a, 0xfb4f, 0xfdfa, 0xfdfb, 0xfdd0, 0xfe00, 0xfe0f, 0xfe33, 0xfe4d, 0xfe50, 0xfe6b, 0xfeff, 0xff01, 0xff0d,
    0xff10, 0xff21, 0xff41, 0xff5e, 0xff61, 0xff66, 0xff76, 0xff9e, 0xff9f, 0xffa0, 0xffe0, 0xffe6, 0xffe8, 0xffee, 0xfffd, 0xfffe, 0xffff,
    0xe000, 0xf8ff, 0xd7ff, 0x0378, 0x0530, 0x2065, 0x1cf7,
    // 4-byte
    0x10000, 0x10400, 0x10428, 0x104b0, 0x10800, 0x10a00, 0x10a3f, 0x10e60, 0x110b9, 0x1109a, 0x1d11e, 0x1d15e, 0x1d165, 0x1d400, 0x1d7ce,
    0x1e900, 0x1e922, 0x1e944, 0x1e2ae, 0x1ee00, 0x1f100, 0x1f600, 0x1f1e6, 0x20000, 0x2a6d6, 0x2f800, 0x2fa1d, 0x30000, 0xe0001, 0xe0020,
    0xe0100, 0xe01ef, 0xf0000, 0x10fffd, 0x10ffff, 0x1fffe, 0x16e40, 0x16e60, 0x118a0, 0x118c0, 0x10c80, 0x10cc0, 0x1e030, 0x1f8ff,
    // controls
    0x0, 0x9, 0xa, 0xd, 0x1f, 0x7f, 0x80, 0x85, 0x9f,
];

static POOLS: OnceLock<Pools> = OnceLock::new();

pub fn pools() -> &'static Pools {
    POOLS.get_or_init(build_pools)
}

fn build_pools() -> Pools {
    let d = db();
    let simple = ch(SIMPLE);
    let mut general = simple.clone();
    for c in ch(CURATED) {
        if !general.contains(&c) {
            general.push(c);
        }
    }
    let zs: Vec<char> = d.zs16.iter().filter_map(|c| char::from_u32(*c)).collect();
    for c in &zs {
        if !general.contains(c) {
            general.push(*c);
        }
    }
    // by-class pools: take up to K members spread over the class
    let spread = |members: &[u32], k: usize| -> Vec<char> {
        if members.is_empty() {
            return vec![];
        }
        let step = (members.len() + k - 1) / k;
        let mut v: Vec<char> = members.iter().step_by(step.max(1)).filter_map(|c| char::from_u32(*c)).collect();
        if let Some(c) = char::from_u32(*members.last().unwrap()) {
            if !v.contains(&c) {
                v.push(c);
            }
        }
        v
    };
    let mut bb: Vec<Vec<u32>> = vec![vec![]; 23];
    let mut bid: Vec<Vec<u32>> = vec![vec![]; 7];
    let mut bff: Vec<Vec<u32>> = vec![vec![]; 7];
    let mut bgc: Vec<Vec<u32>> = vec![vec![]; 30];
    let mut bjt: Vec<Vec<u32>> = vec![vec![]; 6];
    let mut virama = vec![];
    for cp in 0..N as u32 {
        if (0xd800..0xe000).contains(&cp) {
            continue;
        }
        let k = cp as usize;
        if d.u16.listed[k] {
            bb[d.u16.bidi[k] as usize].push(cp);
        }
        bid[d.dpv_id[k] as usize].push(cp);
        bff[d.dpv_ff[k] as usize].push(cp);
        bgc[d.u63.gc[k] as usize].push(cp);
        if d.u63.listed[k] {
            bjt[d.joining63[k] as usize].push(cp);
        }
        if d.u63.ccc[k] == 9 {
            virama.push(cp);
        }
    }
    let by_bidi16: Vec<Vec<char>> = bb.iter().map(|m| spread(m, 60)).collect();
    let by_id: Vec<Vec<char>> = bid.iter().map(|m| spread(m, 200)).collect();
    let by_ff: Vec<Vec<char>> = bff.iter().map(|m| spread(m, 200)).collect();
    let by_gc63: Vec<Vec<char>> = bgc.iter().map(|m| spread(m, 40)).collect();
    let by_jt: Vec<Vec<char>> = bjt.iter().map(|m| spread(m, 40)).collect();
    let virama = ch(&virama);

    // cased: every char whose lowercase differs, sampled, plus titlecase and Other_Uppercase
    let mut cased_all = vec![];
    let mut nfkc_space = vec![];
    let mut compat_ff = vec![];
    let mut norm = vec![];
    let mut buf = [0u8; 4];
    for cp in 0..N as u32 {
        let Some(c) = char::from_u32(cp) else { continue };
        let mut lc = c.to_lowercase();
        if !(lc.len() == 1 && lc.next() == Some(c)) {
            cased_all.push(cp);
        }
        let k = cp as usize;
        if d.u16.dtag[k] != ucd::DT_NONE || (0xac00..=0xd7a3).contains(&cp) {
            let s: &str = c.encode_utf8(&mut buf);
            let n = ucd::nfkc_icu(s);
            if n != s {
                if n.chars().any(|x| d.is_zs16(x)) {
                    nfkc_space.push(c);
                }
                if matches!(d.ff(cp), Dpv::PValid | Dpv::SpecPval) {
                    compat_ff.push(cp);
                }
            }
            if d.u16.dtag[k] == ucd::DT_CANON {
                norm.push(cp);
            }
        }
    }
    // decomposition material
    let mut decomposable: Vec<char> = Vec::new();
    let mut compose_tail: Vec<char> = Vec::new();
    let mut compose_head: Vec<char> = Vec::new();
    let mut starter_pairs: Vec<(char, char)> = Vec::new();
    for cp in norm.iter() {
        let c = char::from_u32(*cp).unwrap();
        decomposable.push(c);
        let dd: Vec<char> = ucd::nfd_icu(&c.to_string()).chars().collect();
        if let Some(h) = dd.first() {
            if dd.len() > 1 && !compose_head.contains(h) {
                compose_head.push(*h);
            }
        }
        for w in dd.windows(2) {
            if !compose_tail.contains(&w[1]) {
                compose_tail.push(w[1]);
            }
            if d.u16.ccc[w[1] as usize] == 0 && !starter_pairs.contains(&(w[0], w[1])) && starter_pairs.len() < 400 {
                starter_pairs.push((w[0], w[1]));
            }
        }
    }
    for (l, v) in [(0x1100u32, 0x1161u32), (0x1112, 0x1175), (0xac00, 0x11a8), (0xd788, 0x11c2)] {
        starter_pairs.push((char::from_u32(l).unwrap(), char::from_u32(v).unwrap()));
    }
    let mut cased = ch(&[0x41, 0x5a, 0xc9, 0x130, 0x1c4, 0x1c5, 0x1c8, 0x1f88, 0x1fbc, 0x3a3, 0x410, 0x1e9e, 0x2126, 0x212a, 0x2160, 0x24b6,
        0x2c00, 0x13a0, 0xab70, 0x10400, 0x1e900, 0x118a0, 0x16e40, 0x10c80, 0xff21]);
    for c in spread(&cased_all, 150) {
        if !cased.contains(&c) {
            cased.push(c);
        }
    }
    let compat_ff = spread(&compat_ff, 300);
    let mut norm_pool = ch(&[0x300, 0x301, 0x307, 0x323, 0x308, 0x327, 0x345, 0x1e0b, 0x1e0d, 0x212b, 0x2126, 0x212a, 0x387, 0x2000, 0x2001,
        0x958, 0xfb1d, 0x1d15e, 0x2adc, 0x1100, 0x1161, 0x11a8, 0xac00, 0xac01, 0x3099, 0x304b, 0x1109a, 0x110ba, 0xf43, 0xe9, 0xc5, 0x65, 0x41, 0x64, 0x44]);
    for c in spread(&norm, 150) {
        if !norm_pool.contains(&c) {
            norm_pool.push(c);
        }
    }
    let mut width: Vec<u32> = d.wn16.keys().copied().collect();
    width.sort();
    let width = ch(&width);
    let ctx = ch(&[0x6c, 0xb7, 0x200c, 0x200d, 0x94d, 0x9cd, 0x375, 0x3b1, 0x5f3, 0x5f4, 0x5d0, 0x30fb, 0x3042, 0x30a2, 0x4e00, 0xff76, 0x660,
        0x665, 0x6f0, 0x6f5, 0x626, 0x627, 0x629, 0xa872, 0x5bf, 0x64e, 0x640, 0x61, 0x41, 0x915]);
    let mut rtl = vec![];
    for cl in [ucd::bidi::R, ucd::bidi::AL, ucd::bidi::AN, ucd::bidi::EN, ucd::bidi::NSM, ucd::bidi::ES, ucd::bidi::CS, ucd::bidi::ET, ucd::bidi::ON, ucd::bidi::BN] {
        for c in by_bidi16[cl as usize].iter().take(12) {
            rtl.push(*c);
        }
    }
    // valid pools: curated ∩ valid first, then a spread of the valid sets
    let mut id_valid: Vec<char> = general.iter().copied().filter(|c| d.id(*c as u32) == Dpv::PValid).collect();
    for c in &by_id[Dpv::PValid as usize] {
        if !id_valid.contains(c) {
            id_valid.push(*c);
        }
    }
    let mut ff_valid: Vec<char> = general.iter().copied().filter(|c| matches!(d.ff(*c as u32), Dpv::PValid | Dpv::SpecPval)).collect();
    for c in by_ff[Dpv::PValid as usize].iter().chain(by_ff[Dpv::SpecPval as usize].iter()) {
        if !ff_valid.contains(c) {
            ff_valid.push(*c);
        }
    }
    let mut id_friendly: Vec<char> = Vec::new();
    for c in simple.iter().chain(cased.iter()).chain(norm_pool.iter()).chain(width.iter()).chain(rtl.iter()).chain(general.iter()) {
        if d.id(d.width16(*c) as u32) == Dpv::PValid && !id_friendly.contains(c) {
            id_friendly.push(*c);
        }
    }
    Pools {
        general, simple, id_friendly, cased_all: ch(&cased_all), decomposable, compose_tail, compose_head, starter_pairs, id_valid, ff_valid, cased, zs, nfkc_space, compat_ff, width, ctx, norm: norm_pool, rtl,
        by_bidi16, by_id, by_ff, by_gc63, by_jt, virama,
    }
}

/// pick from a pool; index is mapped monotonically so shrinking moves to the front
pub fn pick(pool: &'static [char]) -> BoxedStrategy<char> {
    assert!(!pool.is_empty());
    let n = pool.len() as u64;
    (0u32..=u32::MAX).prop_map(move |r| pool[((r as u64 * n) >> 32) as usize]).boxed()
}

/// choose a class first, then a member
pub fn pick_classed(classes: &'static [Vec<char>]) -> BoxedStrategy<char> {
    let nonempty: Vec<&'static Vec<char>> = classes.iter().filter(|c| !c.is_empty()).collect();
    let k = nonempty.len() as u64;
    (0u32..=u32::MAX, 0u32..=u32::MAX)
        .prop_map(move |(a, b)| {
            let cl = nonempty[((a as u64 * k) >> 32) as usize];
            cl[((b as u64 * cl.len() as u64) >> 32) as usize]
        })
        .boxed()
}

pub fn any_scalar() -> BoxedStrategy<char> {
    (0u32..0x110000 - 0x800).prop_map(|x| char::from_u32(if x >= 0xd800 { x + 0x800 } else { x }).unwrap()).boxed()
}

/// the general character strategy
pub fn gchar() -> BoxedStrategy<char> {
    let p = pools();
    prop_oneof![
        25 => pick(&p.simple),
        35 => pick(&p.general),
        6 => pick_classed(&p.by_id),
        6 => pick_classed(&p.by_bidi16),
        6 => pick_classed(&p.by_gc63),
        5 => pick(&p.zs),
        5 => pick(&p.cased),
        4 => pick(&p.norm),
        3 => pick(&p.width),
        2 => pick(&p.ctx),
        3 => any_scalar(),
    ]
    .boxed()
}

pub fn s_of(v: Vec<char>) -> String {
    v.into_iter().collect()
}

/// strings of general characters: mostly short, with tails, sometimes behind / in front of a long pad
pub fn gstring() -> BoxedStrategy<String> {
    padded(lens(gchar()))
}

/// pad units that are valid in both string classes and need no mapping: 1, 2, 3 and 4 UTF-8 bytes
pub const PAD_UNITS: [&str; 6] = ["a", "\u{e9}", "\u{6f22}", "\u{10428}", "ab\u{e9}", "x\u{10428}\u{6f22}"];
/// pad lengths (in units) around the usual capacity / buffer thresholds
pub const PAD_LENS: [usize; 18] = [7, 8, 9, 15, 16, 17, 23, 31, 32, 33, 63, 64, 65, 127, 128, 129, 255, 257];

pub fn pad(unit: usize, len: usize) -> String {
    PAD_UNITS[unit % PAD_UNITS.len()].repeat(PAD_LENS[len % PAD_LENS.len()])
}

/// With probability ~1/6 put a long pad of valid characters before and/or after the generated string, so that the
/// interesting characters stand far from offset 0 (byte offsets and character counts diverge, buffers are re-allocated)
pub fn padded(base: BoxedStrategy<String>) -> BoxedStrategy<String> {
    (base, 0u8..24, 0usize..6, 0usize..18, 0usize..6, 0usize..18)
        .prop_map(|(s, mode, u1, l1, u2, l2)| match mode {
            0 | 1 => format!("{}{}", pad(u1, l1), s),
            2 => format!("{}{}", s, pad(u2, l2)),
            3 => format!("{}{}{}", pad(u1, l1), s, pad(u2, l2)),
            _ => s,
        })
        .boxed()
}
pub fn lens(c: BoxedStrategy<char>) -> BoxedStrategy<String> {
    prop_oneof![
        60 => vec(c.clone(), 0..=6),
        30 => vec(c.clone(), 0..=14),
        9 => vec(c.clone(), 0..=64),
        1 => vec(c, 0..=300),
    ]
    .prop_map(s_of)
    .boxed()
}

/// Shift characters by whole planes (c +/- k*0x10000) where the result is a code point assigned in Unicode 16.0.0:
/// the inputs on which a table/memo keyed on the low 16 bits of a code point confuses two characters
pub fn plane_alias(s: &str, k: u32, up: bool) -> String {
    let d = db();
    s.chars()
        .map(|c| {
            let v = c as u32;
            let t = if up { v.checked_add(k * 0x10000) } else { v.checked_sub(k * 0x10000) };
            match t.and_then(char::from_u32) {
                Some(x) if (x as usize) < N && d.u16.listed[x as usize] => x,
                _ => c,
            }
        })
        .collect()
}

/// "words" of ASCII letters separated by one, two or three spaces (sometimes another Zs), up to ~300 bytes: the shape in
/// which block-wise ASCII fast paths of the space rules go wrong
pub fn ascii_words() -> BoxedStrategy<String> {
    let sep = prop_oneof![6 => Just(" "), 3 => Just("  "), 1 => Just("   "), 1 => Just("\u{a0}"), 1 => Just(" \u{3000}")];
    (vec((1usize..40, sep), 1..10), 0usize..8, any::<bool>())
        .prop_map(|(words, lead, trail)| {
            let mut s = " ".repeat(if lead < 2 { lead } else { 0 });
            for (i, (n, sep)) in words.iter().enumerate() {
                for k in 0..*n {
                    s.push((b'a' + ((i * 7 + k) % 26) as u8) as char);
                }
                if i + 1 < words.len() || trail {
                    s.push_str(sep);
                }
            }
            s
        })
        .boxed()
}

/// labels made of 1..12 contextual CLUSTERS (satisfied and unsatisfied patterns of every RFC 5892 rule, members of the families the
/// whole-label rules look for) separated by fillers of 0..300 valid characters of 1..4 bytes: several rules, several occurrences, far apart
pub fn clustered_labels() -> BoxedStrategy<String> {
    const CLUSTERS: [&str; 30] = [
        "l\u{b7}l", "\u{915}\u{94d}\u{200d}", "\u{915}\u{94d}\u{200c}", "\u{628}\u{200c}\u{628}", "\u{628}\u{651}\u{200c}\u{651}\u{628}", "\u{375}\u{3b1}", "\u{5d0}\u{5f3}", "\u{5d0}\u{5f4}",
        "\u{30fb}", "\u{30fb}\u{30fb}", "\u{3042}", "\u{30a2}", "\u{6f22}", "\u{660}", "\u{661}\u{669}", "\u{6f0}", "\u{6f5}\u{6f9}", "\u{1b13}\u{1b44}\u{200c}\u{1b13}", "\u{6cc}\u{6f1}", "\u{644}\u{661}",
        // unsatisfied / invalid
        "a\u{b7}l", "l\u{b7}", "a\u{200d}", "a\u{200c}", "\u{375}a", "a\u{5f3}", "\u{0}", "\u{2126}", "\u{378}", "L\u{b7}l",
    ];
    let filler = prop_oneof![4 => Just(0usize), 2 => 1usize..4, 2 => 4usize..40, 1 => 120usize..140, 1 => 250usize..300];
    let unit = prop_oneof![3 => Just('a'), 1 => Just('\u{e9}'), 1 => Just('\u{4e00}'), 1 => Just('\u{10428}')];
    vec((prop_oneof![4 => 0usize..20, 1 => 20usize..30], filler, unit), 1..12)
        .prop_map(|parts| {
            let mut s = String::new();
            for (c, n, u) in parts {
                s.push_str(CLUSTERS[c]);
                for _ in 0..n {
                    s.push(u);
                }
            }
            s
        })
        .boxed()
}

/// text over ALL of ASCII (0x00..0x7F, weighted to printable characters and to the numeric neighbours of U+0020: U+001F, U+0021), words of
/// 1..24 characters separated by gaps of 1, 2..3 or 4..40 spaces (one gap in six contains a non-ASCII space), up to ~600 bytes
pub fn ascii_text() -> BoxedStrategy<String> {
    let ch = prop_oneof![10 => 0x21u8..0x7f, 3 => Just(b'!'), 1 => Just(0x1fu8), 1 => Just(0x7fu8), 1 => 0u8..0x20, 2 => Just(b'a')];
    let word = vec(ch, 1..24);
    let gap = prop_oneof![5 => 1usize..2, 3 => 2usize..4, 3 => 4usize..41];
    let kind = prop_oneof![10 => Just(0u8), 1 => Just(1u8), 1 => Just(2u8)];
    (vec((word, gap, kind), 1..10), prop_oneof![3 => Just(0usize), 1 => 1usize..3, 1 => 3usize..30], any::<bool>())
        .prop_map(|(words, lead, trail)| {
            let mut s = " ".repeat(lead);
            for (i, (w, gap, kind)) in words.iter().enumerate() {
                s.extend(w.iter().map(|b| *b as char));
                if i + 1 < words.len() || trail {
                    match kind {
                        0 => s.push_str(&" ".repeat(*gap)),
                        1 => {
                            s.push_str(&" ".repeat(*gap / 2));
                            s.push('\u{3000}');
                            s.push_str(&" ".repeat(*gap - *gap / 2 - (*gap).min(1)));
                        }
                        _ => {
                            s.push('\u{a0}');
                            s.push_str(&" ".repeat(gap.saturating_sub(1)));
                        }
                    }
                }
            }
            s
        })
        .boxed()
}

/// Respell a generated string: sometimes fully decomposed (NFD / NFKD), sometimes one character decomposed,
/// sometimes a composing pair of two STARTERS (two-part vowel signs, Hangul jamo) inserted
pub fn respelled(base: BoxedStrategy<String>) -> BoxedStrategy<String> {
    let pairs: &'static [(char, char)] = &pools().starter_pairs;
    (base, 0u8..20, 0u32..=u32::MAX, 0u32..=u32::MAX)
        .prop_map(move |(s, mode, r1, r2)| match mode {
            0..=9 => s,
            10 | 11 => ucd::nfd_icu(&s),
            12 => ucd::nfkd_icu(&s),
            13 | 14 => {
                // decompose one character
                let cs: Vec<char> = s.chars().collect();
                if cs.is_empty() {
                    return s;
                }
                let at = ((r1 as u64 * cs.len() as u64) >> 32) as usize;
                let mut out = String::new();
                for (i, c) in cs.iter().enumerate() {
                    if i == at { out.push_str(&ucd::nfd_icu(&c.to_string())) } else { out.push(*c) }
                }
                out
            }
            _ => {
                // insert a composing pair of starters
                let (a, b) = pairs[((r1 as u64 * pairs.len() as u64) >> 32) as usize];
                let mut cs: Vec<char> = s.chars().collect();
                let at = ((r2 as u64 * (cs.len() as u64 + 1)) >> 32) as usize;
                cs.insert(at, b);
                cs.insert(at, a);
                cs.into_iter().collect()
            }
        })
        .boxed()
}

/// Strings that are mostly valid for the given pool, with 0..=2 risky characters injected
pub fn valid_biased(valid: &'static [char], risky: BoxedStrategy<char>) -> BoxedStrategy<String> {
    let base = prop_oneof![70 => vec(pick(valid), 1..=8), 25 => vec(pick(valid), 1..=20), 5 => vec(pick(valid), 1..=80)];
    let out = (base, prop_oneof![45 => vec((risky.clone(), 0u32..=u32::MAX), 0..=0), 35 => vec((risky.clone(), 0u32..=u32::MAX), 1..=1), 20 => vec((risky, 0u32..=u32::MAX), 2..=2)])
        .prop_map(|(mut b, inj)| {
            for (c, pos) in inj {
                let at = ((pos as u64 * (b.len() as u64 + 1)) >> 32) as usize;
                b.insert(at, c);
            }
            s_of(b)
        })
        .boxed();
    out
}

// ---------------------------------------------------------------------------------------------
// Pairs of distinct, equal-length strings that collide under the usual cheap 32-bit string hashes. A memo keyed on
// (length, hash) instead of on the string itself confuses exactly such pairs when they are processed back to back; a
// random search meets one with probability ~2^-32 per pair, a birthday search over one string shape finds dozens.

fn h_fnv1a(b: &[u8]) -> u32 { b.iter().fold(0x811c9dc5u32, |h, x| (h ^ *x as u32).wrapping_mul(0x01000193)) }
fn h_fnv1(b: &[u8]) -> u32 { b.iter().fold(0x811c9dc5u32, |h, x| h.wrapping_mul(0x01000193) ^ *x as u32) }
fn h_fnv1a64lo(b: &[u8]) -> u32 { b.iter().fold(0xcbf29ce484222325u64, |h, x| (h ^ *x as u64).wrapping_mul(0x100000001b3)) as u32 }
fn h_djb2(b: &[u8]) -> u32 { b.iter().fold(5381u32, |h, x| h.wrapping_mul(33).wrapping_add(*x as u32)) }
fn h_djb2x(b: &[u8]) -> u32 { b.iter().fold(5381u32, |h, x| h.wrapping_mul(33) ^ *x as u32) }
fn h_sdbm(b: &[u8]) -> u32 { b.iter().fold(0u32, |h, x| (*x as u32).wrapping_add(h << 6).wrapping_add(h << 16).wrapping_sub(h)) }
fn h_java(b: &[u8]) -> u32 { b.iter().fold(0u32, |h, x| h.wrapping_mul(31).wrapping_add(*x as u32)) }
fn h_sum(b: &[u8]) -> u32 { b.iter().fold(0u32, |h, x| h.wrapping_add(*x as u32)) }
fn h_xor_rot(b: &[u8]) -> u32 { b.iter().fold(0u32, |h, x| h.rotate_left(5) ^ *x as u32) }
fn h_adler(b: &[u8]) -> u32 {
    let (mut a, mut c) = (1u32, 0u32);
    for x in b {
        a = (a + *x as u32) % 65521;
        c = (c + a) % 65521;
    }
    (c << 16) | a
}
fn h_crc32(b: &[u8]) -> u32 {
    let mut crc = 0xffff_ffffu32;
    for x in b {
        crc ^= *x as u32;
        for _ in 0..8 {
            crc = if crc & 1 != 0 { (crc >> 1) ^ 0xedb8_8320 } else { crc >> 1 };
        }
    }
    !crc
}
fn h_murmur3(b: &[u8]) -> u32 {
    let (c1, c2) = (0xcc9e2d51u32, 0x1b873593u32);
    let mut h = 0u32;
    let mut chunks = b.chunks_exact(4);
    for ch in &mut chunks {
        let mut k = u32::from_le_bytes([ch[0], ch[1], ch[2], ch[3]]);
        k = k.wrapping_mul(c1).rotate_left(15).wrapping_mul(c2);
        h = (h ^ k).rotate_left(13).wrapping_mul(5).wrapping_add(0xe6546b64);
    }
    let rem = chunks.remainder();
    let mut k = 0u32;
    for (i, x) in rem.iter().enumerate() {
        k |= (*x as u32) << (8 * i);
    }
    if !rem.is_empty() {
        h ^= k.wrapping_mul(c1).rotate_left(15).wrapping_mul(c2);
    }
    h ^= b.len() as u32;
    h ^= h >> 16;
    h = h.wrapping_mul(0x85ebca6b);
    h ^= h >> 13;
    h = h.wrapping_mul(0xc2b2ae35);
    h ^ (h >> 16)
}

/// (hash name, a, b): a != b, same byte length, same hash. `shape(n)` builds the n-th candidate.
pub fn collision_pairs(shape: &(dyn Fn(u32) -> String + Sync), candidates: u32, per_hash: usize) -> Vec<(&'static str, String, String)> {
    let hashes: [(&'static str, fn(&[u8]) -> u32); 12] = [
        ("fnv1a32", h_fnv1a), ("fnv1_32", h_fnv1), ("fnv1a64-low32", h_fnv1a64lo), ("djb2", h_djb2), ("djb2-xor", h_djb2x), ("sdbm", h_sdbm), ("java31", h_java),
        ("byte-sum", h_sum), ("rot5-xor", h_xor_rot), ("adler32", h_adler), ("crc32", h_crc32), ("murmur3-32", h_murmur3),
    ];
    let strings: Vec<String> = (0..candidates).map(shape).collect();
    let mut out = Vec::new();
    for (name, h) in hashes {
        let mut seen: std::collections::HashMap<(usize, u32), u32> = std::collections::HashMap::with_capacity(strings.len());
        let mut found = 0;
        for (i, s) in strings.iter().enumerate() {
            match seen.entry((s.len(), h(s.as_bytes()))) {
                std::collections::hash_map::Entry::Occupied(e) => {
                    let j = *e.get() as usize;
                    if strings[j] != *s {
                        out.push((name, strings[j].clone(), s.clone()));
                        found += 1;
                        if found >= per_hash {
                            break;
                        }
                    }
                }
                std::collections::hash_map::Entry::Vacant(v) => {
                    v.insert(i as u32);
                }
            }
        }
    }
    out
}

fn base36(mut n: u32, width: usize) -> String {
    let mut v = vec![b'0'; width];
    for i in (0..width).rev() {
        let d = (n % 36) as u8;
        v[i] = if d < 10 { b'0' + d } else { b'a' + d - 10 };
        n /= 36;
    }
    String::from_utf8(v).unwrap()
}

/// colliding pairs for three string shapes: plain nicknames, usernames with a fullwidth character, passwords with a wide space
pub fn fingerprint_collisions() -> &'static Vec<(&'static str, String, String)> {
    static C: OnceLock<Vec<(&'static str, String, String)>> = OnceLock::new();
    C.get_or_init(|| {
        let mut v = collision_pairs(&|n| format!("Guest {n:06}"), 300_000, 6);
        v.extend(collision_pairs(&|n| format!("user{}\u{ff41}example", base36(n, 6)), 300_000, 6));
        v.extend(collision_pairs(&|n| format!("pass\u{3000}{}", base36(n.wrapping_mul(2654435761), 7)), 300_000, 6));
        v.extend(collision_pairs(&|n| format!("Nick{}\u{c5}", base36(n, 5)), 300_000, 4));
        v
    })
}
