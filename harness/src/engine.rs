//! Engine: parallel runners (proptest-driven and enumerating), counters, shrinking, evidence.

use proptest::strategy::{Strategy, ValueTree};
use proptest::test_runner::{Config, RngAlgorithm, TestCaseError, TestError, TestRng, TestRunner};
use serde_json::{json, Value};
use std::cell::RefCell;
use std::collections::{BTreeMap, HashSet};
use std::panic::{catch_unwind, AssertUnwindSafe};
use std::sync::atomic::{AtomicBool, AtomicU64, Ordering};
use std::sync::Mutex;
use std::time::Instant;

#[derive(Clone, Copy, PartialEq, Eq, Debug)]
pub enum Tier {
    Quick,
    Thorough,
}

#[derive(Clone, Debug)]
pub struct Violation {
    pub case: Value,
    pub expected: String,
    pub observed: String,
}
impl Violation {
    pub fn new(case: Value, expected: impl Into<String>, observed: impl Into<String>) -> Self {
        Violation { case, expected: expected.into(), observed: observed.into() }
    }
}
pub type Check = Result<(), Violation>;

const NT_CAP: usize = 3_000_000;
const SAMPLES_PER_THREAD: usize = 3;

/// Per-thread statistics; merged into the Run at the end of a section.
#[derive(Default)]
pub struct Local {
    pub evals: u64,
    pub cases: u64,
    nt: HashSet<u64>,
    nt_seen: u64,
    nt_capped: bool,
    next_sample_at: u64,
    labels: BTreeMap<&'static str, u64>,
    samples: Vec<Value>,
    known: BTreeMap<String, u64>,
    pub skew: u64,
    /// set after the first failure so that shrinking re-runs are not counted
    pub frozen: bool,
    pub tid: usize,
}
impl Local {
    /// a scratch Local whose counters are frozen (used while shrinking / re-evaluating)
    pub fn scratch() -> Local {
        Local { frozen: true, ..Local::default() }
    }
    #[inline]
    pub fn eval(&mut self) {
        if !self.frozen {
            self.evals += 1;
        }
    }
    #[inline]
    pub fn evals_n(&mut self, n: u64) {
        if !self.frozen {
            self.evals += n;
        }
    }
    /// mark the current case as non-trivial; `h` identifies it for distinct counting
    #[inline]
    pub fn nt(&mut self, h: u64) {
        if self.frozen {
            return;
        }
        self.nt_seen += 1;
        if self.nt.len() < NT_CAP {
            self.nt.insert(h);
        } else {
            self.nt_capped = true;
        }
    }
    #[inline]
    pub fn label(&mut self, l: &'static str) {
        if !self.frozen {
            *self.labels.entry(l).or_insert(0) += 1;
        }
    }
    #[inline]
    pub fn label_n(&mut self, l: &'static str, n: u64) {
        if !self.frozen {
            *self.labels.entry(l).or_insert(0) += n;
        }
    }
    pub fn known(&mut self, sig: &str) {
        if !self.frozen {
            *self.known.entry(sig.to_string()).or_insert(0) += 1;
        }
    }
    /// true when the caller should build a sample of the current (non-trivial) case:
    /// the 1st, ~20th, ~400th ... non-trivial case of this thread, so samples are spread out
    pub fn want_sample(&self) -> bool {
        !self.frozen && self.samples.len() < SAMPLES_PER_THREAD && self.nt_seen >= self.next_sample_at
    }
    pub fn sample(&mut self, v: Value) {
        if self.want_sample() {
            self.samples.push(v);
            self.next_sample_at = self.nt_seen * 20 + 1;
        }
    }
}

/// trouble of the machinery itself (never a violation): exit 2
pub fn infra(msg: &str) -> ! {
    eprintln!("INFRA: {msg}");
    std::process::exit(2)
}

pub fn hash64<T: std::hash::Hash>(t: &T) -> u64 {
    use std::hash::Hasher;
    let mut h = Fnv(0xcbf29ce484222325);
    t.hash(&mut h);
    h.finish()
}
pub struct Fnv(pub u64);
impl std::hash::Hasher for Fnv {
    fn finish(&self) -> u64 {
        // final avalanche (splitmix)
        let mut z = self.0;
        z = (z ^ (z >> 30)).wrapping_mul(0xbf58476d1ce4e5b9);
        z = (z ^ (z >> 27)).wrapping_mul(0x94d049bb133111eb);
        z ^ (z >> 31)
    }
    fn write(&mut self, bytes: &[u8]) {
        for b in bytes {
            self.0 ^= *b as u64;
            self.0 = self.0.wrapping_mul(0x100000001b3);
        }
    }
}

pub fn splitmix(x: &mut u64) -> u64 {
    *x = x.wrapping_add(0x9e3779b97f4a7c15);
    let mut z = *x;
    z = (z ^ (z >> 30)).wrapping_mul(0xbf58476d1ce4e5b9);
    z = (z ^ (z >> 27)).wrapping_mul(0x94d049bb133111eb);
    z ^ (z >> 31)
}

pub struct Section {
    pub name: String,
    pub evals: u64,
    pub cases: u64,
    pub exhaustive: bool,
    pub wall_s: f64,
}

#[derive(Default)]
pub struct Merged {
    pub evals: u64,
    pub cases: u64,
    pub nt: HashSet<u64>,
    pub nt_seen: u64,
    pub nt_capped: bool,
    pub labels: BTreeMap<String, u64>,
    pub samples: Vec<Value>,
    pub known: BTreeMap<String, u64>,
    pub skew: u64,
    pub sections: Vec<Section>,
    pub extra: BTreeMap<String, Value>,
}

pub struct Run {
    pub id: String,
    pub tier: Tier,
    pub seed: u64,
    pub threads: usize,
    pub start: Instant,
    pub merged: Mutex<Merged>,
    pub violations: Mutex<Vec<Violation>>,
    pub stop: AtomicBool,
    pub rule: Mutex<String>,
    pub assumptions: Mutex<Vec<String>>,
    pub all_exhaustive: AtomicBool,
    pub found_counter: AtomicU64,
    /// active known-finding signatures for this property (from known_findings.json)
    pub known_sigs: Vec<String>,
}

thread_local! {
    static LAST_PANIC: RefCell<Option<String>> = RefCell::new(None);
}

pub fn install_panic_hook() {
    std::panic::set_hook(Box::new(|info| {
        let msg = if let Some(s) = info.payload().downcast_ref::<&str>() {
            s.to_string()
        } else if let Some(s) = info.payload().downcast_ref::<String>() {
            s.clone()
        } else {
            "panic".to_string()
        };
        let loc = info.location().map(|l| format!(" at {}:{}", l.file(), l.line())).unwrap_or_default();
        LAST_PANIC.with(|p| *p.borrow_mut() = Some(format!("{msg}{loc}")));
    }));
}

/// Run `f`, turning a panic into Err(message).
pub fn guard<T>(f: impl FnOnce() -> T) -> Result<T, String> {
    match catch_unwind(AssertUnwindSafe(f)) {
        Ok(v) => Ok(v),
        Err(_) => Err(LAST_PANIC.with(|p| p.borrow_mut().take()).unwrap_or_else(|| "panic".into())),
    }
}

impl Run {
    pub fn new(id: &str, tier: Tier, seed: u64, known_sigs: Vec<String>) -> Run {
        let threads = std::env::var("PV_THREADS")
            .ok()
            .and_then(|s| s.parse().ok())
            .unwrap_or_else(|| std::thread::available_parallelism().map(|n| n.get()).unwrap_or(8).min(16));
        Run {
            id: id.to_string(),
            tier,
            seed,
            threads,
            start: Instant::now(),
            merged: Mutex::new(Merged::default()),
            violations: Mutex::new(Vec::new()),
            stop: AtomicBool::new(false),
            rule: Mutex::new(String::new()),
            assumptions: Mutex::new(Vec::new()),
            all_exhaustive: AtomicBool::new(true),
            found_counter: AtomicU64::new(0),
            known_sigs,
        }
    }
    pub fn quick(&self) -> bool {
        self.tier == Tier::Quick
    }
    /// choose by tier
    pub fn pick<T>(&self, q: T, t: T) -> T {
        if self.quick() { q } else { t }
    }
    pub fn set_rule(&self, s: &str) {
        *self.rule.lock().unwrap() = s.to_string();
    }
    pub fn assume(&self, s: &str) {
        self.assumptions.lock().unwrap().push(s.to_string());
    }
    pub fn extra(&self, k: &str, v: Value) {
        self.merged.lock().unwrap().extra.insert(k.to_string(), v);
    }
    pub fn sig_active(&self, sig: &str) -> bool {
        self.known_sigs.iter().any(|s| s == sig)
    }
    /// development aid: PV_SECTIONS=a,b restricts a run to the named sections (never set by ./check)
    fn section_enabled(&self, section: &str) -> bool {
        match std::env::var("PV_SECTIONS") {
            Ok(l) if !l.is_empty() => l.split(',').any(|x| section.starts_with(x)),
            _ => true,
        }
    }
    pub fn stopped(&self) -> bool {
        self.stop.load(Ordering::Relaxed)
    }
    pub fn violate(&self, v: Violation) {
        self.stop.store(true, Ordering::Relaxed);
        let mut vs = self.violations.lock().unwrap();
        if vs.len() < 5 && !vs.iter().any(|x| x.case == v.case) {
            vs.push(v);
        }
    }
    pub fn thread_seed(&self, section: &str, tid: usize) -> [u8; 32] {
        let mut x = hash64(&(self.seed, &self.id, section, tid as u64));
        let mut out = [0u8; 32];
        for i in 0..4 {
            out[i * 8..i * 8 + 8].copy_from_slice(&splitmix(&mut x).to_le_bytes());
        }
        out
    }

    fn merge(&self, section: &str, locals: Vec<Local>, exhaustive: bool, t0: Instant) {
        let mut m = self.merged.lock().unwrap();
        let mut ev = 0;
        let mut cs = 0;
        for l in locals {
            ev += l.evals;
            cs += l.cases;
            m.nt_seen += l.nt_seen;
            m.nt_capped |= l.nt_capped;
            if m.nt.len() < 8 * NT_CAP {
                m.nt.extend(l.nt);
            } else {
                m.nt_capped = true;
            }
            for (k, v) in l.labels {
                *m.labels.entry(format!("{section}:{k}")).or_insert(0) += v;
            }
            for s in l.samples {
                if m.samples.len() < 40 {
                    m.samples.push(s);
                }
            }
            for (k, v) in l.known {
                *m.known.entry(k).or_insert(0) += v;
            }
            m.skew += l.skew;
        }
        m.evals += ev;
        m.cases += cs;
        if !exhaustive {
            self.all_exhaustive.store(false, Ordering::Relaxed);
        }
        let wall = t0.elapsed().as_secs_f64();
        eprintln!("[{}] section {section}: cases={cs} evals={ev} exhaustive={exhaustive} {:.1}s", self.id, wall);
        m.sections.push(Section { name: section.to_string(), evals: ev, cases: cs, exhaustive, wall_s: wall });
    }

    /// Parallel enumeration: `f(tid, nthreads, local)`; the closure partitions the space itself
    /// (typically `for i in (tid..n).step_by(nthreads)`), checks `run.stopped()` now and then,
    /// and reports violations through `run.violate`.
    pub fn par<F>(&self, section: &str, exhaustive: bool, f: F)
    where
        F: Fn(usize, usize, &mut Local) + Sync,
    {
        if self.stopped() || !self.section_enabled(section) {
            return;
        }
        let t0 = Instant::now();
        let n = self.threads;
        let locals: Vec<Local> = std::thread::scope(|s| {
            let hs: Vec<_> = (0..n)
                .map(|tid| {
                    let f = &f;
                    std::thread::Builder::new()
                        .stack_size(64 << 20)
                        .spawn_scoped(s, move || {
                            let mut l = Local { tid, ..Local::default() };
                            if let Err(p) = guard(|| f(tid, n, &mut l)) {
                                self.violate(Violation::new(
                                    json!({"section": "harness", "note": "panic escaped a check closure"}),
                                    "no panic",
                                    p,
                                ));
                            }
                            l
                        })
                        .unwrap()
                })
                .collect();
            hs.into_iter().map(|h| h.join().unwrap()).collect()
        });
        self.merge(section, locals, exhaustive && !self.stopped(), t0);
    }

    /// Randomised PBT over `strategy`, `cases` in total spread over the threads; `check` is
    /// the oracle; a failing case is shrunk by proptest and recorded as a violation.
    pub fn prop<S, G, F>(&self, section: &str, cases: u64, mk_strategy: G, check: F)
    where
        S: Strategy,
        G: Fn() -> S + Sync,
        S::Value: Clone + std::fmt::Debug,
        F: Fn(&S::Value, &mut Local) -> Check + Sync,
    {
        if self.stopped() || !self.section_enabled(section) {
            return;
        }
        let t0 = Instant::now();
        let n = self.threads;
        let per = (cases + n as u64 - 1) / n as u64;
        let locals: Vec<Local> = std::thread::scope(|s| {
            let hs: Vec<_> = (0..n)
                .map(|tid| {
                    let check = &check;
                    let mk_strategy = &mk_strategy;
                    std::thread::Builder::new()
                        .stack_size(64 << 20)
                        .spawn_scoped(s, move || {
                            let strategy = mk_strategy();
                            let strategy = &strategy;
                            let mut l = Local { tid, ..Local::default() };
                            let cfg = Config {
                                cases: per as u32,
                                failure_persistence: None,
                                max_shrink_iters: 20_000,
                                // shrinking is best effort: a deadline bounds only how small the reported case gets, never the verdict
                                max_shrink_time: 60_000,
                                max_global_rejects: 1_000_000,
                                ..Config::default()
                            };
                            let rng = TestRng::from_seed(RngAlgorithm::ChaCha, &self.thread_seed(section, tid));
                            let mut runner = TestRunner::new_with_rng(cfg, rng);
                            let lc = RefCell::new(&mut l);
                            let res = runner.run(strategy, |case| {
                                let mut lb = lc.borrow_mut();
                                if self.stopped() && !lb.frozen {
                                    return Ok(());
                                }
                                if !lb.frozen {
                                    lb.cases += 1;
                                }
                                match guard(|| check(&case, &mut **lb)) {
                                    Ok(Ok(())) => Ok(()),
                                    Ok(Err(v)) => {
                                        lb.frozen = true;
                                        Err(TestCaseError::fail(format!("expected {} observed {}", v.expected, v.observed)))
                                    }
                                    Err(p) => {
                                        lb.frozen = true;
                                        Err(TestCaseError::fail(format!("panic: {p}")))
                                    }
                                }
                            });
                            drop(lc);
                            match res {
                                Ok(()) => {}
                                Err(TestError::Fail(_, minimal)) => {
                                    let mut scratch = Local::scratch();
                                    scratch.tid = tid; // checks that use per-thread scratch directories must not collide
                                    let v = match guard(|| check(&minimal, &mut scratch)) {
                                        Ok(Err(v)) => v,
                                        Ok(Ok(())) => Violation::new(
                                            json!({"debug": format!("{:?}", minimal)}),
                                            "stable failure",
                                            "shrunk case passed on re-evaluation (flaky)",
                                        ),
                                        Err(p) => Violation::new(json!({"debug": format!("{:?}", minimal)}), "no panic", format!("panic: {p}")),
                                    };
                                    self.violate(v);
                                }
                                Err(TestError::Abort(why)) => {
                                    eprintln!("INFRA: proptest aborted in {section}: {why}");
                                    std::process::exit(2);
                                }
                            }
                            l
                        })
                        .unwrap()
                })
                .collect();
            hs.into_iter().map(|h| h.join().unwrap()).collect()
        });
        self.merge(section, locals, false, t0);
    }

    /// Produce one value of a strategy deterministically (for batteries that need generated parts)
    pub fn sample_strategy<S: Strategy>(&self, section: &str, tid: usize, strategy: &S, n: usize) -> Vec<S::Value> {
        let rng = TestRng::from_seed(RngAlgorithm::ChaCha, &self.thread_seed(section, tid));
        let mut runner = TestRunner::new_with_rng(Config { failure_persistence: None, ..Config::default() }, rng);
        (0..n).map(|_| strategy.new_tree(&mut runner).unwrap().current()).collect()
    }
}

/// Greedy shrinker for enumerated/fuzzed character sequences: delete characters, then replace
/// by 'a', as long as `fails` stays true.
/// `s` copied into `buf` behind k filler bytes and in front of two more: the returned view has the same content as `s` but starts k
/// bytes after an allocation boundary (every residue of the pointer modulo 16 for k = 0..16) and does not end at the end of the buffer
pub fn view_at<'a>(buf: &'a mut String, s: &str, k: usize) -> &'a str {
    buf.clear();
    buf.reserve(s.len() + k + 2);
    for _ in 0..k {
        buf.push('#');
    }
    buf.push_str(s);
    buf.push_str("@@");
    &buf[k..k + s.len()]
}

/// run `f` when the calling thread ends, from the destructor of a thread-local value (a caller may use the library from such a place)
pub fn at_thread_exit(f: Box<dyn FnOnce()>) {
    struct ExitHooks(std::cell::RefCell<Vec<Box<dyn FnOnce()>>>);
    impl Drop for ExitHooks {
        fn drop(&mut self) {
            let hooks: Vec<Box<dyn FnOnce()>> = self.0.borrow_mut().drain(..).collect();
            for f in hooks {
                f();
            }
        }
    }
    thread_local! {
        static EXIT_HOOKS: ExitHooks = ExitHooks(std::cell::RefCell::new(Vec::new()));
    }
    EXIT_HOOKS.with(|h| h.0.borrow_mut().push(f));
}

pub fn shrink_chars(mut v: Vec<char>, fails: &dyn Fn(&[char]) -> bool) -> Vec<char> {
    // best effort under a work budget (characters re-evaluated) and a 60 s deadline: the budget only bounds how small the reported
    // counterexample gets, never whether a violation is reported
    let budget = std::cell::Cell::new(600_000_000i64);
    let t0 = std::time::Instant::now();
    let attempt = |w: &[char]| -> bool {
        if budget.get() <= 0 || t0.elapsed().as_secs() >= 60 {
            return false;
        }
        budget.set(budget.get() - w.len() as i64 - 64);
        fails(w)
    };
    // chunks first (halves, quarters, ...), so that megabyte-sized inputs shrink in a few hundred evaluations
    let exhausted = || budget.get() <= 0 || t0.elapsed().as_secs() >= 60;
    let mut chunk = v.len() / 2;
    while chunk >= 2 && !exhausted() {
        let mut i = 0;
        while i < v.len() && !exhausted() {
            let end = (i + chunk).min(v.len());
            let mut w: Vec<char> = Vec::with_capacity(v.len() - (end - i));
            w.extend_from_slice(&v[..i]);
            w.extend_from_slice(&v[end..]);
            if attempt(&w) {
                v = w;
            } else {
                i += chunk;
            }
        }
        chunk /= 2;
    }
    loop {
        let mut changed = false;
        let mut i = 0;
        while i < v.len() && !exhausted() {
            let mut w = v.clone();
            w.remove(i);
            if attempt(&w) {
                v = w;
                changed = true;
            } else {
                i += 1;
            }
        }
        for i in 0..v.len() {
            if exhausted() {
                break;
            }
            if v[i] != 'a' {
                let mut w = v.clone();
                w[i] = 'a';
                if attempt(&w) {
                    v = w;
                    changed = true;
                }
            }
        }
        if !changed || exhausted() {
            return v;
        }
    }
}

pub fn esc(s: &str) -> String {
    let mut o = String::new();
    for c in s.chars() {
        if (' '..='~').contains(&c) && c != '\\' && c != '"' {
            o.push(c);
        } else {
            o.push_str(&format!("\\u{{{:x}}}", c as u32));
        }
    }
    o
}
/// JSON encoding of a string: the string itself (lossless) plus a readable code-point list
pub fn jstr(s: &str) -> Value {
    json!({"s": s, "esc": esc(s)})
}
pub fn jget_str(v: &Value, key: &str) -> Option<String> {
    let x = v.get(key)?;
    if let Some(s) = x.as_str() {
        return Some(s.to_string());
    }
    x.get("s")?.as_str().map(|s| s.to_string())
}
