//! Reference models written from the RFC texts over the reference arrays in `ucd`.

use crate::ucd::{self, bidi, db, Dpv};
use precis_core::{Error, UnexpectedError};

#[derive(Clone, Debug, PartialEq, Eq, Hash)]
pub enum RErr {
    Invalid,
    Bad { cp: u32, pos: usize, prop: Dpv },
    Undefined,
    Missing { cp: u32, pos: usize, prop: Dpv },
    CtxNotApplicable { cp: u32, pos: usize, prop: Dpv },
    ProfileRuleNotApplicable,
}

pub fn rerr(e: &Error) -> RErr {
    match e {
        Error::Invalid => RErr::Invalid,
        Error::BadCodepoint(i) => RErr::Bad { cp: i.cp, pos: i.position, prop: Dpv::of(i.property) },
        Error::Unexpected(u) => match u {
            UnexpectedError::Undefined => RErr::Undefined,
            UnexpectedError::MissingContextRule(i) => RErr::Missing { cp: i.cp, pos: i.position, prop: Dpv::of(i.property) },
            UnexpectedError::ContextRuleNotApplicable(i) => {
                RErr::CtxNotApplicable { cp: i.cp, pos: i.position, prop: Dpv::of(i.property) }
            }
            UnexpectedError::ProfileRuleNotApplicable => RErr::ProfileRuleNotApplicable,
        },
    }
}

pub type RRes = Result<String, RErr>;
/// set of results the property allows (usually one element)
pub type Alts = Vec<RRes>;

pub fn obs<'a>(r: &Result<std::borrow::Cow<'a, str>, Error>) -> RRes {
    match r {
        Ok(s) => Ok(s.to_string()),
        Err(e) => Err(rerr(e)),
    }
}

pub fn fmt_res(r: &RRes) -> String {
    match r {
        Ok(s) => format!("Ok(\"{}\")", crate::engine::esc(s)),
        Err(e) => format!("Err({e:?})"),
    }
}
pub fn fmt_alts(a: &Alts) -> String {
    a.iter().map(fmt_res).collect::<Vec<_>>().join(" | ")
}

// ---------------------------------------------------------------------------------------------
// Context rules (RFC 5892 Appendix A); answers as a bit set of allowed outcomes
pub const A_TRUE: u8 = 1;
pub const A_FALSE: u8 = 2;
pub const A_NA: u8 = 4;
pub const A_UNDEF: u8 = 8;

#[derive(Clone, Copy, Debug, PartialEq, Eq, Hash)]
pub enum CtxRule {
    Zwnj,
    Zwj,
    MiddleDot,
    Keraia,
    HebrewPunct,
    KatakanaDot,
    ArabicIndic,
    ExtArabicIndic,
}
pub const ALL_RULES: [CtxRule; 8] = [
    CtxRule::Zwnj, CtxRule::Zwj, CtxRule::MiddleDot, CtxRule::Keraia, CtxRule::HebrewPunct,
    CtxRule::KatakanaDot, CtxRule::ArabicIndic, CtxRule::ExtArabicIndic,
];

impl CtxRule {
    pub fn owns(self, cp: u32) -> bool {
        match self {
            CtxRule::Zwnj => cp == 0x200c,
            CtxRule::Zwj => cp == 0x200d,
            CtxRule::MiddleDot => cp == 0x00b7,
            CtxRule::Keraia => cp == 0x0375,
            CtxRule::HebrewPunct => cp == 0x05f3 || cp == 0x05f4,
            CtxRule::KatakanaDot => cp == 0x30fb,
            CtxRule::ArabicIndic => (0x0660..=0x0669).contains(&cp),
            CtxRule::ExtArabicIndic => (0x06f0..=0x06f9).contains(&cp),
        }
    }
    pub fn imp(self) -> precis_core::context::ContextRule {
        use precis_core::context::*;
        match self {
            CtxRule::Zwnj => rule_zero_width_nonjoiner,
            CtxRule::Zwj => rule_zero_width_joiner,
            CtxRule::MiddleDot => rule_middle_dot,
            CtxRule::Keraia => rule_greek_lower_numeral_sign_keraia,
            CtxRule::HebrewPunct => rule_hebrew_punctuation,
            CtxRule::KatakanaDot => rule_katakana_middle_dot,
            CtxRule::ArabicIndic => rule_arabic_indic_digits,
            CtxRule::ExtArabicIndic => rule_extended_arabic_indic_digits,
        }
    }
    pub fn name(self) -> &'static str {
        match self {
            CtxRule::Zwnj => "zwnj",
            CtxRule::Zwj => "zwj",
            CtxRule::MiddleDot => "middle_dot",
            CtxRule::Keraia => "keraia",
            CtxRule::HebrewPunct => "hebrew_punct",
            CtxRule::KatakanaDot => "katakana_dot",
            CtxRule::ArabicIndic => "arabic_indic",
            CtxRule::ExtArabicIndic => "ext_arabic_indic",
        }
    }
    pub fn from_name(n: &str) -> Option<CtxRule> {
        ALL_RULES.iter().copied().find(|r| r.name() == n)
    }
}

/// the rule the RFC 5892 registry assigns to a code point
pub fn ref_registry(cp: u32) -> Option<CtxRule> {
    ALL_RULES.iter().copied().find(|r| r.owns(cp))
}

/// Allowed answers of `rule` at `pos` of `label` (code points).
pub fn ref_ctx(rule: CtxRule, label: &[char], pos: usize) -> u8 {
    let d = db();
    if pos >= label.len() {
        return A_UNDEF;
    }
    let cp = label[pos] as u32;
    if !rule.owns(cp) {
        return A_NA;
    }
    let before = if pos > 0 { Some(label[pos - 1] as u32) } else { None };
    let after = label.get(pos + 1).map(|c| *c as u32);
    // (condition holds, some inspected neighbour lies outside the label)
    let (cond, outside) = match rule {
        CtxRule::Zwj => (before.map_or(false, |b| d.is_virama63(b)), before.is_none()),
        CtxRule::Zwnj => {
            if before.map_or(false, |b| d.is_virama63(b)) {
                (true, false)
            } else {
                // (Joining_Type:{L,D})(Joining_Type:T)*‌(Joining_Type:T)*(Joining_Type:{R,D})
                let mut i = pos;
                let mut left: Option<u32> = None;
                while i > 0 {
                    i -= 1;
                    let c = label[i] as u32;
                    if d.jt(c) != ucd::JT_T {
                        left = Some(c);
                        break;
                    }
                }
                let mut j = pos + 1;
                let mut right: Option<u32> = None;
                while j < label.len() {
                    let c = label[j] as u32;
                    if d.jt(c) != ucd::JT_T {
                        right = Some(c);
                        break;
                    }
                    j += 1;
                }
                let lok = left.map_or(false, |c| matches!(d.jt(c), ucd::JT_L | ucd::JT_D));
                let rok = right.map_or(false, |c| matches!(d.jt(c), ucd::JT_R | ucd::JT_D));
                (lok && rok, left.is_none() || right.is_none())
            }
        }
        CtxRule::MiddleDot => (before == Some(0x6c) && after == Some(0x6c), before.is_none() || after.is_none()),
        CtxRule::Keraia => (after.map_or(false, |a| d.sc(a) == ucd::SC_GREEK), after.is_none()),
        CtxRule::HebrewPunct => (before.map_or(false, |b| d.sc(b) == ucd::SC_HEBREW), before.is_none()),
        CtxRule::KatakanaDot => (
            label.iter().any(|c| matches!(d.sc(*c as u32), ucd::SC_HIRAGANA | ucd::SC_KATAKANA | ucd::SC_HAN)),
            false,
        ),
        CtxRule::ArabicIndic => (!label.iter().any(|c| (0x06f0..=0x06f9).contains(&(*c as u32))), false),
        CtxRule::ExtArabicIndic => (!label.iter().any(|c| (0x0660..=0x0669).contains(&(*c as u32))), false),
    };
    if cond {
        A_TRUE
    } else if outside {
        A_FALSE | A_UNDEF
    } else {
        A_FALSE
    }
}

pub fn ans_of(r: &Result<bool, precis_core::context::ContextRuleError>) -> u8 {
    use precis_core::context::ContextRuleError as E;
    match r {
        Ok(true) => A_TRUE,
        Ok(false) => A_FALSE,
        Err(E::NotApplicable) => A_NA,
        Err(E::Undefined) => A_UNDEF,
    }
}
pub fn fmt_ans(a: u8) -> String {
    let mut v = Vec::new();
    if a & A_TRUE != 0 { v.push("Ok(true)"); }
    if a & A_FALSE != 0 { v.push("Ok(false)"); }
    if a & A_NA != 0 { v.push("Err(NotApplicable)"); }
    if a & A_UNDEF != 0 { v.push("Err(Undefined)"); }
    v.join(" | ")
}

// ---------------------------------------------------------------------------------------------
// String class acceptance

/// Ok(()) = accepted; Err(alts) = the allowed error values
pub fn ref_allows(label: &[char], classify: &dyn Fn(char) -> Dpv) -> Result<(), Vec<RErr>> {
    for (i, c) in label.iter().enumerate() {
        let v = classify(*c);
        let cp = *c as u32;
        match v {
            Dpv::PValid | Dpv::SpecPval => {}
            Dpv::SpecDis | Dpv::Disallowed | Dpv::Unassigned => return Err(vec![RErr::Bad { cp, pos: i, prop: v }]),
            Dpv::ContextJ | Dpv::ContextO => match ref_registry(cp) {
                None => return Err(vec![RErr::Missing { cp, pos: i, prop: v }]),
                Some(rule) => {
                    let a = ref_ctx(rule, label, i);
                    if a == A_TRUE {
                        continue;
                    }
                    let mut alts = Vec::new();
                    if a & A_FALSE != 0 {
                        alts.push(RErr::Bad { cp, pos: i, prop: v });
                    }
                    if a & A_UNDEF != 0 {
                        alts.push(RErr::Undefined);
                    }
                    return Err(alts);
                }
            },
        }
    }
    Ok(())
}

pub fn ref_allows_id(label: &[char]) -> Result<(), Vec<RErr>> {
    let d = db();
    ref_allows(label, &|c| d.id(c as u32))
}
pub fn ref_allows_ff(label: &[char]) -> Result<(), Vec<RErr>> {
    let d = db();
    ref_allows(label, &|c| d.ff(c as u32))
}

// ---------------------------------------------------------------------------------------------
// Profile steps

thread_local! {
    /// 0 = ICU4X (reference), 1 = unicode-normalization plain iterators (skew guard only)
    pub static NORM_IMPL: std::cell::Cell<u8> = std::cell::Cell::new(0);
}
pub fn nfc(s: &str) -> String {
    use unicode_normalization::UnicodeNormalization;
    if NORM_IMPL.with(|n| n.get()) == 0 { ucd::nfc_icu(s) } else { s.nfc().collect() }
}
pub fn nfkc(s: &str) -> String {
    use unicode_normalization::UnicodeNormalization;
    if NORM_IMPL.with(|n| n.get()) == 0 { ucd::nfkc_icu(s) } else { s.nfkc().collect() }
}
/// evaluate `f` with the alternative normaliser
pub fn with_alt_norm<T>(f: impl FnOnce() -> T) -> T {
    NORM_IMPL.with(|n| n.set(1));
    let r = f();
    NORM_IMPL.with(|n| n.set(0));
    r
}

pub fn ref_width(s: &str) -> String {
    let d = db();
    s.chars().map(|c| d.width16(c)).collect()
}
pub fn ref_lower(s: &str) -> String {
    let mut o = String::with_capacity(s.len());
    for c in s.chars() {
        o.extend(c.to_lowercase());
    }
    o
}
pub fn ref_space_opaque(s: &str) -> String {
    let d = db();
    s.chars().map(|c| if c != ' ' && d.is_zs16(c) { ' ' } else { c }).collect()
}
pub fn ref_space_nick(s: &str) -> String {
    let d = db();
    let mapped: String = s.chars().map(|c| if d.is_zs16(c) { ' ' } else { c }).collect();
    mapped.split(' ').filter(|p| !p.is_empty()).collect::<Vec<_>>().join(" ")
}

pub fn bidi_classes16(s: &str) -> Vec<u8> {
    let d = db();
    s.chars().map(|c| d.u16.bidi[c as usize]).collect()
}
pub fn all_listed16(s: &str) -> bool {
    let d = db();
    s.chars().all(|c| d.u16.listed[c as usize])
}
pub fn has_rtl_classes(cl: &[u8]) -> bool {
    cl.iter().any(|c| matches!(*c, bidi::R | bidi::AL | bidi::AN))
}
/// The six conditions of RFC 5893 section 2 over a class sequence
pub fn ref_bidi_rule(cl: &[u8]) -> bool {
    if cl.is_empty() {
        return true;
    }
    let first = cl[0];
    let rtl = matches!(first, bidi::R | bidi::AL);
    if !rtl && first != bidi::L {
        return false; // condition 1
    }
    let last = cl.iter().rev().find(|c| **c != bidi::NSM);
    if rtl {
        let allowed = |c: u8| {
            matches!(c, bidi::R | bidi::AL | bidi::AN | bidi::EN | bidi::ES | bidi::CS | bidi::ET | bidi::ON | bidi::BN | bidi::NSM)
        };
        cl.iter().all(|c| allowed(*c))
            && last.map_or(false, |c| matches!(*c, bidi::R | bidi::AL | bidi::EN | bidi::AN))
            && !(cl.contains(&bidi::EN) && cl.contains(&bidi::AN))
    } else {
        let allowed = |c: u8| matches!(c, bidi::L | bidi::EN | bidi::ES | bidi::CS | bidi::ET | bidi::ON | bidi::BN | bidi::NSM);
        cl.iter().all(|c| allowed(*c)) && last.map_or(false, |c| matches!(*c, bidi::L | bidi::EN))
    }
}
pub fn ref_directionality_classes(cl: &[u8]) -> bool {
    !has_rtl_classes(cl) || ref_bidi_rule(cl)
}
/// K1 signature on a class sequence: contains an NSM followed later by a non-NSM
pub fn has_interior_nsm(cl: &[u8]) -> bool {
    let mut seen = false;
    for c in cl {
        if *c == bidi::NSM {
            seen = true;
        } else if seen {
            return true;
        }
    }
    false
}

pub fn ref_stabilize(s: &str, f: &dyn Fn(&str) -> RRes) -> RRes {
    let mut c = s.to_string();
    for _ in 0..4 {
        let t = f(&c)?;
        if t == c {
            return Ok(c);
        }
        c = t;
    }
    Err(RErr::Invalid)
}

#[derive(Clone, Copy, Debug, PartialEq, Eq, Hash)]
pub enum Prof {
    UserMapped,
    UserPreserved,
    Opaque,
    Nick,
}
pub const PROFS: [Prof; 4] = [Prof::UserMapped, Prof::UserPreserved, Prof::Opaque, Prof::Nick];
impl Prof {
    pub fn name(self) -> &'static str {
        match self {
            Prof::UserMapped => "UsernameCaseMapped",
            Prof::UserPreserved => "UsernameCasePreserved",
            Prof::Opaque => "OpaqueString",
            Prof::Nick => "Nickname",
        }
    }
    pub fn from_name(n: &str) -> Option<Prof> {
        PROFS.iter().copied().find(|p| p.name() == n)
    }
    pub fn is_username(self) -> bool {
        matches!(self, Prof::UserMapped | Prof::UserPreserved)
    }
    pub fn class_of(self, cp: u32) -> Dpv {
        if self.is_username() { db().id(cp) } else { db().ff(cp) }
    }
}

/// Information about how a model evaluation went (for non-triviality labels and known findings)
#[derive(Default, Clone, Debug)]
pub struct Trace {
    pub width_changed: bool,
    pub case_changed: bool,
    pub norm_changed: bool,
    pub space_changed: bool,
    pub has_rtl: bool,
    /// the string that reached the directionality step
    pub bidi_input: Option<String>,
    pub rounds: u32,
    pub unlisted16: bool,
}

fn vec_err(e: Vec<RErr>) -> Alts {
    e.into_iter().map(Err).collect()
}

pub fn model_prepare(p: Prof, s: &str, tr: &mut Trace) -> Alts {
    match p {
        Prof::UserMapped | Prof::UserPreserved => {
            let w = ref_width(s);
            tr.width_changed = w != s;
            if w.is_empty() {
                return vec![Err(RErr::Invalid)];
            }
            let chars: Vec<char> = w.chars().collect();
            match ref_allows_id(&chars) {
                Ok(()) => vec![Ok(w)],
                Err(e) => vec_err(e),
            }
        }
        Prof::Opaque | Prof::Nick => {
            if s.is_empty() {
                return vec![Err(RErr::Invalid)];
            }
            let chars: Vec<char> = s.chars().collect();
            match ref_allows_ff(&chars) {
                Ok(()) => vec![Ok(s.to_string())],
                Err(e) => vec_err(e),
            }
        }
    }
}

fn single_ok(a: &Alts) -> Option<&String> {
    if a.len() == 1 { a[0].as_ref().ok() } else { None }
}

/// One application of the nickname rules (`lower`: the comparison variant)
pub fn model_nick_round(s: &str, lower: bool, tr: &mut Trace) -> Alts {
    let a = model_prepare(Prof::Nick, s, tr);
    let Some(x) = single_ok(&a) else { return a };
    let sp = ref_space_nick(x);
    tr.space_changed |= sp != *x;
    let lc = if lower { ref_lower(&sp) } else { sp.clone() };
    tr.case_changed |= lc != sp;
    let n = nfkc(&lc);
    tr.norm_changed |= n != lc;
    if n.is_empty() {
        return vec![Err(RErr::Invalid)];
    }
    vec![Ok(n)]
}

fn stabilize_alts(s: &str, tr: &mut Trace, f: &dyn Fn(&str, &mut Trace) -> Alts) -> Alts {
    let mut c = s.to_string();
    for i in 0..4 {
        let a = f(&c, tr);
        let Some(t) = single_ok(&a) else { return a };
        tr.rounds = i + 1;
        if *t == c {
            return vec![Ok(c)];
        }
        c = t.clone();
    }
    vec![Err(RErr::Invalid)]
}

pub fn model_enforce(p: Prof, s: &str, tr: &mut Trace) -> Alts {
    match p {
        Prof::UserMapped | Prof::UserPreserved => {
            let a = model_prepare(p, s, tr);
            let Some(w) = single_ok(&a) else { return a };
            let c = if p == Prof::UserMapped { ref_lower(w) } else { w.clone() };
            tr.case_changed = c != *w;
            let n = nfc(&c);
            tr.norm_changed = n != c;
            if n.is_empty() {
                return vec![Err(RErr::Invalid)];
            }
            let cl = bidi_classes16(&n);
            tr.unlisted16 = !all_listed16(&n);
            tr.has_rtl = has_rtl_classes(&cl);
            tr.bidi_input = Some(n.clone());
            if ref_directionality_classes(&cl) { vec![Ok(n)] } else { vec![Err(RErr::Invalid)] }
        }
        Prof::Opaque => {
            let a = model_prepare(p, s, tr);
            let Some(x) = single_ok(&a) else { return a };
            let sp = ref_space_opaque(x);
            tr.space_changed = sp != *x;
            let n = nfc(&sp);
            tr.norm_changed = n != sp;
            if n.is_empty() {
                return vec![Err(RErr::Invalid)];
            }
            vec![Ok(n)]
        }
        Prof::Nick => stabilize_alts(s, tr, &|x, tr| model_nick_round(x, false, tr)),
    }
}

/// the canonical comparison form
pub fn model_form(p: Prof, s: &str, tr: &mut Trace) -> Alts {
    match p {
        Prof::Nick => stabilize_alts(s, tr, &|x, tr| model_nick_round(x, true, tr)),
        _ => model_enforce(p, s, tr),
    }
}

// ---------------------------------------------------------------------------------------------
// Implementation dispatch

use precis_core::profile::{PrecisFastInvocation, Profile, Rules};
use precis_profiles::{Nickname, OpaqueString, UsernameCaseMapped, UsernameCasePreserved};
use std::borrow::Cow;

#[derive(Clone, Copy, Debug, PartialEq, Eq, Hash)]
pub enum Op {
    Prepare,
    Enforce,
}

pub fn imp_prepare(p: Prof, s: &str) -> RRes {
    obs(&match p {
        Prof::UserMapped => UsernameCaseMapped::new().prepare(s),
        Prof::UserPreserved => UsernameCasePreserved::new().prepare(s),
        Prof::Opaque => OpaqueString::new().prepare(s),
        Prof::Nick => Nickname::new().prepare(s),
    })
}
pub fn imp_enforce(p: Prof, s: &str) -> RRes {
    obs(&match p {
        Prof::UserMapped => UsernameCaseMapped::new().enforce(s),
        Prof::UserPreserved => UsernameCasePreserved::new().enforce(s),
        Prof::Opaque => OpaqueString::new().enforce(s),
        Prof::Nick => Nickname::new().enforce(s),
    })
}
pub fn imp_compare(p: Prof, a: &str, b: &str) -> Result<bool, RErr> {
    match p {
        Prof::UserMapped => UsernameCaseMapped::new().compare(a, b),
        Prof::UserPreserved => UsernameCasePreserved::new().compare(a, b),
        Prof::Opaque => OpaqueString::new().compare(a, b),
        Prof::Nick => Nickname::new().compare(a, b),
    }
    .map_err(|e| rerr(&e))
}
pub fn imp_compare_static(p: Prof, a: &str, b: &str) -> Result<bool, RErr> {
    match p {
        Prof::UserMapped => <UsernameCaseMapped as PrecisFastInvocation>::compare(a, b),
        Prof::UserPreserved => <UsernameCasePreserved as PrecisFastInvocation>::compare(a, b),
        Prof::Opaque => <OpaqueString as PrecisFastInvocation>::compare(a, b),
        Prof::Nick => <Nickname as PrecisFastInvocation>::compare(a, b),
    }
    .map_err(|e| rerr(&e))
}

#[derive(Clone, Copy, Debug, PartialEq, Eq, Hash)]
pub enum RuleKind {
    Width,
    Additional,
    Case,
    Norm,
    Dir,
}
pub const RULE_KINDS: [RuleKind; 5] = [RuleKind::Width, RuleKind::Additional, RuleKind::Case, RuleKind::Norm, RuleKind::Dir];
impl RuleKind {
    pub fn name(self) -> &'static str {
        match self {
            RuleKind::Width => "width_mapping_rule",
            RuleKind::Additional => "additional_mapping_rule",
            RuleKind::Case => "case_mapping_rule",
            RuleKind::Norm => "normalization_rule",
            RuleKind::Dir => "directionality_rule",
        }
    }
}

fn rule_on<'a, R: Rules>(r: &R, k: RuleKind, s: &'a str) -> Result<Cow<'a, str>, Error> {
    match k {
        RuleKind::Width => r.width_mapping_rule(s),
        RuleKind::Additional => r.additional_mapping_rule(s),
        RuleKind::Case => r.case_mapping_rule(s),
        RuleKind::Norm => r.normalization_rule(s),
        RuleKind::Dir => r.directionality_rule(s),
    }
}
pub fn imp_rule(p: Prof, k: RuleKind, s: &str) -> RRes {
    obs(&match p {
        Prof::UserMapped => rule_on(&UsernameCaseMapped::new(), k, s),
        Prof::UserPreserved => rule_on(&UsernameCasePreserved::new(), k, s),
        Prof::Opaque => rule_on(&OpaqueString::new(), k, s),
        Prof::Nick => rule_on(&Nickname::new(), k, s),
    })
}

fn rule_on_owned<R: Rules>(r: &R, k: RuleKind, s: String) -> Result<Cow<'static, str>, Error> {
    match k {
        RuleKind::Width => r.width_mapping_rule(s),
        RuleKind::Additional => r.additional_mapping_rule(s),
        RuleKind::Case => r.case_mapping_rule(s),
        RuleKind::Norm => r.normalization_rule(s),
        RuleKind::Dir => r.directionality_rule(s),
    }
}
/// the same rule with an OWNED argument that has spare capacity (in-place fast paths)
pub fn imp_rule_owned(p: Prof, k: RuleKind, s: &str) -> RRes {
    let mut o = String::with_capacity(s.len() * 3 + 129);
    o.push_str(s);
    obs(&match p {
        Prof::UserMapped => rule_on_owned(&UsernameCaseMapped::new(), k, o),
        Prof::UserPreserved => rule_on_owned(&UsernameCasePreserved::new(), k, o),
        Prof::Opaque => rule_on_owned(&OpaqueString::new(), k, o),
        Prof::Nick => rule_on_owned(&Nickname::new(), k, o),
    })
}
