pub mod engine;
pub mod gens;
pub mod model;
pub mod props;
pub mod ucd;
