pub mod engine;
pub mod fuzzdec;
pub mod gens;
pub mod model;
pub mod props;
pub mod ucd;
