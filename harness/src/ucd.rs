//! Independent readers for the pinned UCD / IANA files under /verif/data and the reference
//! arrays built from them.  Nothing in this file uses precis-tools or ucd-parse.

use std::collections::HashMap;
use std::path::{Path, PathBuf};
use std::sync::OnceLock;

pub const N: usize = 0x110000;

pub const GC_NAMES: [&str; 30] = [
    "Cn", "Lu", "Ll", "Lt", "Lm", "Lo", "Mn", "Mc", "Me", "Nd", "Nl", "No", "Pc", "Pd", "Ps", "Pe",
    "Pi", "Pf", "Po", "Sm", "Sc", "Sk", "So", "Zs", "Zl", "Zp", "Cc", "Cf", "Cs", "Co",
];
pub const BIDI_NAMES: [&str; 23] = [
    "L", "R", "AL", "EN", "ES", "ET", "AN", "CS", "NSM", "BN", "B", "S", "WS", "ON", "LRE", "LRO",
    "RLE", "RLO", "PDF", "LRI", "RLI", "FSI", "PDI",
];
pub mod bidi {
    pub const L: u8 = 0;
    pub const R: u8 = 1;
    pub const AL: u8 = 2;
    pub const EN: u8 = 3;
    pub const ES: u8 = 4;
    pub const ET: u8 = 5;
    pub const AN: u8 = 6;
    pub const CS: u8 = 7;
    pub const NSM: u8 = 8;
    pub const BN: u8 = 9;
    pub const ON: u8 = 13;
}

pub fn gc_idx(name: &str) -> u8 {
    GC_NAMES.iter().position(|n| *n == name).unwrap_or_else(|| panic!("unknown gc {name}")) as u8
}
pub fn bidi_idx(name: &str) -> u8 {
    BIDI_NAMES.iter().position(|n| *n == name).unwrap_or_else(|| panic!("unknown bidi {name}")) as u8
}

pub fn data_dir() -> PathBuf {
    if let Ok(d) = std::env::var("PV_DATA") {
        return PathBuf::from(d);
    }
    Path::new(env!("CARGO_MANIFEST_DIR")).parent().unwrap().join("data")
}
pub fn verif_dir() -> PathBuf {
    if let Ok(d) = std::env::var("PV_VERIF") {
        return PathBuf::from(d);
    }
    Path::new(env!("CARGO_MANIFEST_DIR")).parent().unwrap().to_path_buf()
}

/// Decomposition tag classes
pub const DT_NONE: u8 = 0;
pub const DT_CANON: u8 = 1;
pub const DT_WIDE: u8 = 2;
pub const DT_NARROW: u8 = 3;
pub const DT_COMPAT: u8 = 4; // any other <tag>

/// One parsed UnicodeData.txt (ranges expanded)
pub struct UData {
    pub listed: Vec<bool>,
    pub gc: Vec<u8>,
    pub ccc: Vec<u8>,
    pub bidi: Vec<u8>,
    pub dtag: Vec<u8>,
    /// first code point of the decomposition mapping (0 = none)
    pub dfirst: Vec<u32>,
    /// number of code points in the decomposition mapping
    pub dlen: Vec<u8>,
    /// raw entries in file order: (start, end, is_range)
    pub entries: Vec<(u32, u32, bool)>,
}

/// One line of UnicodeData.txt, as I read it (used by the C15 input generator too)
#[derive(Clone, Debug, PartialEq, Eq)]
pub struct ULine {
    pub cp: u32,
    pub name: String,
    pub gc: String,
    pub ccc: u8,
    pub bidi: String,
    pub decomp: String,
}

pub fn parse_unicode_data_lines(text: &str) -> Vec<ULine> {
    let mut v = Vec::new();
    for line in text.lines() {
        let line = line.trim_end();
        if line.is_empty() || line.starts_with('#') {
            continue;
        }
        let f: Vec<&str> = line.split(';').collect();
        assert!(f.len() >= 6, "bad UnicodeData line: {line}");
        v.push(ULine {
            cp: u32::from_str_radix(f[0], 16).expect("hex cp"),
            name: f[1].to_string(),
            gc: f[2].to_string(),
            ccc: f[3].parse().expect("ccc"),
            bidi: f[4].to_string(),
            decomp: f[5].to_string(),
        });
    }
    v
}

pub fn decomp_tag(d: &str) -> (u8, u32, u8) {
    if d.is_empty() {
        return (DT_NONE, 0, 0);
    }
    let mut tag = DT_CANON;
    let mut cps = Vec::new();
    for tok in d.split_whitespace() {
        if tok.starts_with('<') {
            tag = match tok {
                "<wide>" => DT_WIDE,
                "<narrow>" => DT_NARROW,
                _ => DT_COMPAT,
            };
        } else {
            cps.push(u32::from_str_radix(tok, 16).expect("decomp cp"));
        }
    }
    (tag, cps.first().copied().unwrap_or(0), cps.len() as u8)
}

pub fn build_udata(lines: &[ULine]) -> UData {
    let mut u = UData {
        listed: vec![false; N],
        gc: vec![0; N],
        ccc: vec![0; N],
        bidi: vec![0; N],
        dtag: vec![0; N],
        dfirst: vec![0; N],
        dlen: vec![0; N],
        entries: Vec::new(),
    };
    let mut i = 0;
    while i < lines.len() {
        let l = &lines[i];
        let (start, end, is_range) = if l.name.ends_with(", First>") {
            let m = &lines[i + 1];
            assert!(m.name.ends_with(", Last>"), "First without Last at {:X}", l.cp);
            i += 1;
            (l.cp, m.cp, true)
        } else {
            (l.cp, l.cp, false)
        };
        let gc = gc_idx(&l.gc);
        let b = bidi_idx(&l.bidi);
        let (tag, first, len) = decomp_tag(&l.decomp);
        for cp in start..=end {
            let k = cp as usize;
            assert!(!u.listed[k], "duplicate cp {cp:X}");
            u.listed[k] = true;
            u.gc[k] = gc;
            u.ccc[k] = l.ccc;
            u.bidi[k] = b;
            u.dtag[k] = tag;
            u.dfirst[k] = first;
            u.dlen[k] = len;
        }
        u.entries.push((start, end, is_range));
        i += 1;
    }
    u
}

/// Parse a "cp(..cp)? ; value # comment" property file into (start,end,value) triples
pub fn parse_prop_file(text: &str) -> Vec<(u32, u32, String)> {
    let mut v = Vec::new();
    for line in text.lines() {
        let line = match line.find('#') {
            Some(p) => &line[..p],
            None => line,
        };
        let line = line.trim();
        if line.is_empty() {
            continue;
        }
        let mut it = line.split(';');
        let cps = it.next().unwrap().trim();
        let val = it.next().expect("value field").trim().to_string();
        let (a, b) = match cps.find("..") {
            Some(p) => (
                u32::from_str_radix(&cps[..p], 16).unwrap(),
                u32::from_str_radix(&cps[p + 2..], 16).unwrap(),
            ),
            None => {
                let c = u32::from_str_radix(cps, 16).unwrap();
                (c, c)
            }
        };
        v.push((a, b, val));
    }
    v
}

pub fn read(p: &Path) -> String {
    std::fs::read_to_string(p).unwrap_or_else(|e| {
        eprintln!("INFRA: cannot read {}: {e}", p.display());
        std::process::exit(2)
    })
}

// Script ids
pub const SC_OTHER: u8 = 0;
pub const SC_GREEK: u8 = 1;
pub const SC_HEBREW: u8 = 2;
pub const SC_HIRAGANA: u8 = 3;
pub const SC_KATAKANA: u8 = 4;
pub const SC_HAN: u8 = 5;
// Joining types
pub const JT_U: u8 = 0;
pub const JT_R: u8 = 1;
pub const JT_L: u8 = 2;
pub const JT_D: u8 = 3;
pub const JT_T: u8 = 4;
pub const JT_C: u8 = 5;

/// Derived property values (reference side)
#[derive(Clone, Copy, Debug, PartialEq, Eq, Hash, PartialOrd, Ord)]
#[repr(u8)]
pub enum Dpv {
    PValid = 0,
    SpecPval = 1,
    SpecDis = 2,
    ContextJ = 3,
    ContextO = 4,
    Disallowed = 5,
    Unassigned = 6,
}
impl Dpv {
    pub fn from_u8(x: u8) -> Dpv {
        match x {
            0 => Dpv::PValid,
            1 => Dpv::SpecPval,
            2 => Dpv::SpecDis,
            3 => Dpv::ContextJ,
            4 => Dpv::ContextO,
            5 => Dpv::Disallowed,
            _ => Dpv::Unassigned,
        }
    }
    pub fn of(v: precis_core::DerivedPropertyValue) -> Dpv {
        use precis_core::DerivedPropertyValue as D;
        match v {
            D::PValid => Dpv::PValid,
            D::SpecClassPval => Dpv::SpecPval,
            D::SpecClassDis => Dpv::SpecDis,
            D::ContextJ => Dpv::ContextJ,
            D::ContextO => Dpv::ContextO,
            D::Disallowed => Dpv::Disallowed,
            D::Unassigned => Dpv::Unassigned,
        }
    }
    pub fn to_impl(self) -> precis_core::DerivedPropertyValue {
        use precis_core::DerivedPropertyValue as D;
        match self {
            Dpv::PValid => D::PValid,
            Dpv::SpecPval => D::SpecClassPval,
            Dpv::SpecDis => D::SpecClassDis,
            Dpv::ContextJ => D::ContextJ,
            Dpv::ContextO => D::ContextO,
            Dpv::Disallowed => D::Disallowed,
            Dpv::Unassigned => D::Unassigned,
        }
    }
}

/// names of the deciding rule of RFC 8264 section 8, in list order
pub const RULE_NAMES: [&str; 15] = [
    "Exceptions", "BackwardCompatible", "Unassigned", "ASCII7", "JoinControl", "OldHangulJamo",
    "PrecisIgnorableProperties", "Controls", "HasCompat", "LetterDigits", "OtherLetterDigits",
    "Spaces", "Symbols", "Punctuation", "default(DISALLOWED)",
];

/// RFC 8264 9.6 / RFC 5892 2.6 exceptions, typed from the RFC text.
pub fn exception(cp: u32) -> Option<Dpv> {
    match cp {
        0x00DF | 0x03C2 | 0x06FD | 0x06FE | 0x0F0B | 0x3007 => Some(Dpv::PValid),
        0x00B7 | 0x0375 | 0x05F3 | 0x05F4 | 0x30FB => Some(Dpv::ContextO),
        0x0660..=0x0669 | 0x06F0..=0x06F9 => Some(Dpv::ContextO),
        0x0640 | 0x07FA | 0x302E | 0x302F | 0x3031..=0x3035 | 0x303B => Some(Dpv::Disallowed),
        _ => None,
    }
}

pub struct IanaRow {
    pub start: u32,
    pub end: u32,
    pub props: Vec<String>,
    pub desc: String,
}

/// My own reader of the IANA registry CSV: three fields, third may contain commas.
pub fn parse_iana_csv(text: &str) -> Vec<IanaRow> {
    let mut rows = Vec::new();
    for (i, raw) in text.split('\n').enumerate() {
        if i == 0 || raw.is_empty() {
            continue;
        }
        let line = raw.strip_suffix('\r').unwrap_or(raw);
        let c1 = line.find(',').expect("csv field 1");
        let rest = &line[c1 + 1..];
        let c2 = rest.find(',').expect("csv field 2");
        let (cps, props, desc) = (&line[..c1], &rest[..c2], &rest[c2 + 1..]);
        let (start, end) = match cps.find('-') {
            Some(p) => (
                u32::from_str_radix(&cps[..p], 16).unwrap(),
                u32::from_str_radix(&cps[p + 1..], 16).unwrap(),
            ),
            None => {
                let c = u32::from_str_radix(cps, 16).unwrap();
                (c, c)
            }
        };
        let props: Vec<String> = props.split(" or ").map(|s| s.trim().to_string()).collect();
        rows.push(IanaRow { start, end, props, desc: desc.to_string() });
    }
    rows
}

pub struct Db {
    pub u63: UData,
    pub u16: UData,
    pub script63: Vec<u8>,
    pub joining63: Vec<u8>,
    pub join_control: Vec<bool>,
    pub nonchar: Vec<bool>,
    pub dicp: Vec<bool>,
    pub hst_lvt: Vec<bool>,
    /// reference derived property (IdentifierClass / FreeformClass) and the deciding rule
    pub dpv_id: Vec<u8>,
    pub dpv_ff: Vec<u8>,
    pub rule: Vec<u8>,
    /// IANA registry values (id, ff); 255 = not covered by the registry
    pub iana_id: Vec<u8>,
    pub iana_ff: Vec<u8>,
    pub iana_rows: usize,
    /// wide/narrow mapping (16.0.0): cp -> target
    pub wn16: HashMap<u32, u32>,
    /// Zs in 16.0.0 / 6.3.0
    pub zs16: Vec<u32>,
}

static DB: OnceLock<Db> = OnceLock::new();

pub fn db() -> &'static Db {
    DB.get_or_init(build_db)
}

fn iana_name_to(p: &str, ff: bool) -> u8 {
    (match p {
        "PVALID" => Dpv::PValid,
        "FREE_PVAL" => Dpv::SpecPval,
        "ID_DIS" => Dpv::SpecDis,
        "CONTEXTJ" => Dpv::ContextJ,
        "CONTEXTO" => Dpv::ContextO,
        "DISALLOWED" => Dpv::Disallowed,
        "UNASSIGNED" => Dpv::Unassigned,
        _ => panic!("iana prop {p} {ff}"),
    }) as u8
}

pub fn nfkc_icu(s: &str) -> String {
    icu_normalizer::ComposingNormalizerBorrowed::new_nfkc().normalize(s).into_owned()
}
pub fn nfc_icu(s: &str) -> String {
    icu_normalizer::ComposingNormalizerBorrowed::new_nfc().normalize(s).into_owned()
}
pub fn nfd_icu(s: &str) -> String {
    icu_normalizer::DecomposingNormalizerBorrowed::new_nfd().normalize(s).into_owned()
}
pub fn nfkd_icu(s: &str) -> String {
    icu_normalizer::DecomposingNormalizerBorrowed::new_nfkd().normalize(s).into_owned()
}

fn build_db() -> Db {
    let d = data_dir();
    let u63 = build_udata(&parse_unicode_data_lines(&read(&d.join("ucd63/UnicodeData.txt"))));
    let u16 = build_udata(&parse_unicode_data_lines(&read(&d.join("ucd16/UnicodeData.txt"))));

    let mut script63 = vec![SC_OTHER; N];
    for (a, b, v) in parse_prop_file(&read(&d.join("ucd63/Scripts.txt"))) {
        let id = match v.as_str() {
            "Greek" => SC_GREEK,
            "Hebrew" => SC_HEBREW,
            "Hiragana" => SC_HIRAGANA,
            "Katakana" => SC_KATAKANA,
            "Han" => SC_HAN,
            _ => SC_OTHER,
        };
        for cp in a..=b {
            script63[cp as usize] = id;
        }
    }
    let mut joining63 = vec![JT_U; N];
    for (a, b, v) in parse_prop_file(&read(&d.join("ucd63/extracted/DerivedJoiningType.txt"))) {
        let id = match v.as_str() {
            "R" => JT_R,
            "L" => JT_L,
            "D" => JT_D,
            "T" => JT_T,
            "C" => JT_C,
            "U" => JT_U,
            o => panic!("joining type {o}"),
        };
        for cp in a..=b {
            joining63[cp as usize] = id;
        }
    }
    let mut join_control = vec![false; N];
    let mut nonchar = vec![false; N];
    for (a, b, v) in parse_prop_file(&read(&d.join("ucd63/PropList.txt"))) {
        let t = match v.as_str() {
            "Join_Control" => &mut join_control,
            "Noncharacter_Code_Point" => &mut nonchar,
            _ => continue,
        };
        for cp in a..=b {
            t[cp as usize] = true;
        }
    }
    let mut dicp = vec![false; N];
    for (a, b, v) in parse_prop_file(&read(&d.join("ucd63/DerivedCoreProperties.txt"))) {
        if v == "Default_Ignorable_Code_Point" {
            for cp in a..=b {
                dicp[cp as usize] = true;
            }
        }
    }
    let mut hst_lvt = vec![false; N];
    for (a, b, v) in parse_prop_file(&read(&d.join("ucd63/HangulSyllableType.txt"))) {
        if v == "L" || v == "V" || v == "T" {
            for cp in a..=b {
                hst_lvt[cp as usize] = true;
            }
        }
    }

    // RFC 8264 section 8 decision list
    let g = |n: &str| gc_idx(n);
    let letter_digits = [g("Ll"), g("Lu"), g("Lo"), g("Nd"), g("Lm"), g("Mn"), g("Mc")];
    let other_ld = [g("Lt"), g("Nl"), g("No"), g("Me")];
    let symbols = [g("Sm"), g("Sc"), g("Sk"), g("So")];
    let punct = [g("Pc"), g("Pd"), g("Ps"), g("Pe"), g("Pi"), g("Pf"), g("Po")];
    let zs = g("Zs");
    let cc = g("Cc");
    let mut dpv_id = vec![0u8; N];
    let mut dpv_ff = vec![0u8; N];
    let mut rule = vec![0u8; N];
    let nfkc = icu_normalizer::ComposingNormalizerBorrowed::new_nfkc();
    let mut buf = [0u8; 4];
    for cp in 0..N as u32 {
        let k = cp as usize;
        let gc = u63.gc[k];
        let (r, id, ff): (u8, Dpv, Dpv) = if let Some(v) = exception(cp) {
            (0, v, v)
        } else if !u63.listed[k] && !nonchar[k] {
            (2, Dpv::Unassigned, Dpv::Unassigned)
        } else if (0x21..=0x7e).contains(&cp) {
            (3, Dpv::PValid, Dpv::PValid)
        } else if join_control[k] {
            (4, Dpv::ContextJ, Dpv::ContextJ)
        } else if hst_lvt[k] {
            (5, Dpv::Disallowed, Dpv::Disallowed)
        } else if dicp[k] || nonchar[k] {
            (6, Dpv::Disallowed, Dpv::Disallowed)
        } else if gc == cc {
            (7, Dpv::Disallowed, Dpv::Disallowed)
        } else if char::from_u32(cp).map_or(false, |c| {
            let s: &str = c.encode_utf8(&mut buf);
            nfkc.normalize(s) != s
        }) {
            (8, Dpv::SpecDis, Dpv::SpecPval)
        } else if letter_digits.contains(&gc) {
            (9, Dpv::PValid, Dpv::PValid)
        } else if other_ld.contains(&gc) {
            (10, Dpv::SpecDis, Dpv::SpecPval)
        } else if gc == zs {
            (11, Dpv::SpecDis, Dpv::SpecPval)
        } else if symbols.contains(&gc) {
            (12, Dpv::SpecDis, Dpv::SpecPval)
        } else if punct.contains(&gc) {
            (13, Dpv::SpecDis, Dpv::SpecPval)
        } else {
            (14, Dpv::Disallowed, Dpv::Disallowed)
        };
        rule[k] = r;
        dpv_id[k] = id as u8;
        dpv_ff[k] = ff as u8;
    }

    let mut iana_id = vec![255u8; N];
    let mut iana_ff = vec![255u8; N];
    let rows = parse_iana_csv(&read(&d.join("csv/precis-tables-6.3.0.csv")));
    for r in &rows {
        for cp in r.start..=r.end {
            let k = cp as usize;
            if r.props.len() == 1 {
                iana_id[k] = iana_name_to(&r.props[0], false);
                iana_ff[k] = iana_id[k];
            } else {
                for p in &r.props {
                    match p.as_str() {
                        "ID_DIS" => iana_id[k] = Dpv::SpecDis as u8,
                        "FREE_PVAL" => iana_ff[k] = Dpv::SpecPval as u8,
                        o => panic!("unexpected pair member {o}"),
                    }
                }
            }
        }
    }

    let mut wn16 = HashMap::new();
    let mut zs16 = Vec::new();
    for cp in 0..N {
        if u16.dtag[cp] == DT_WIDE || u16.dtag[cp] == DT_NARROW {
            assert_eq!(u16.dlen[cp], 1);
            wn16.insert(cp as u32, u16.dfirst[cp]);
        }
        if u16.listed[cp] && u16.gc[cp] == zs {
            zs16.push(cp as u32);
        }
    }

    Db {
        u63, u16, script63, joining63, join_control, nonchar, dicp, hst_lvt, dpv_id, dpv_ff, rule,
        iana_id, iana_ff, iana_rows: rows.len(), wn16, zs16,
    }
}

impl Db {
    pub fn is_virama63(&self, cp: u32) -> bool {
        (cp as usize) < N && self.u63.ccc[cp as usize] == 9
    }
    pub fn jt(&self, cp: u32) -> u8 {
        self.joining63[cp as usize]
    }
    pub fn sc(&self, cp: u32) -> u8 {
        self.script63[cp as usize]
    }
    pub fn id(&self, cp: u32) -> Dpv {
        if (cp as usize) < N { Dpv::from_u8(self.dpv_id[cp as usize]) } else { Dpv::Disallowed }
    }
    pub fn ff(&self, cp: u32) -> Dpv {
        if (cp as usize) < N { Dpv::from_u8(self.dpv_ff[cp as usize]) } else { Dpv::Disallowed }
    }
    pub fn is_zs16(&self, c: char) -> bool {
        self.zs16.binary_search(&(c as u32)).is_ok()
    }
    pub fn width16(&self, c: char) -> char {
        match self.wn16.get(&(c as u32)) {
            Some(t) => char::from_u32(*t).expect("wide/narrow target is a scalar"),
            None => c,
        }
    }
}
