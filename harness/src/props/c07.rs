//! C07 — compare is equality of comparison forms: an equivalence with strict errors
use super::pipe::*;
use crate::engine::*;
use crate::gens::pools;
use crate::model::*;
use crate::ucd::{self, db};
use proptest::collection::vec;
use proptest::prelude::*;
use serde_json::{json, Value};
use std::collections::HashMap;
use std::sync::OnceLock;

fn cmp_json(p: Prof, a: &str, b: &str) -> Value {
    json!({"op": "compare", "profile": p.name(), "a": jstr(a), "b": jstr(b)})
}
fn fmt_cmp(r: &Result<bool, RErr>) -> String {
    format!("{r:?}")
}

struct Inv {
    width: HashMap<char, Vec<char>>,
    compat: HashMap<char, Vec<char>>,
}
fn inv() -> &'static Inv {
    static I: OnceLock<Inv> = OnceLock::new();
    I.get_or_init(|| {
        let d = db();
        let mut width: HashMap<char, Vec<char>> = HashMap::new();
        let mut keys: Vec<u32> = d.wn16.keys().copied().collect();
        keys.sort();
        for k in keys {
            let t = char::from_u32(d.wn16[&k]).unwrap();
            width.entry(t).or_default().push(char::from_u32(k).unwrap());
        }
        let mut compat: HashMap<char, Vec<char>> = HashMap::new();
        for cp in 0..ucd::N as u32 {
            if d.u16.dtag[cp as usize] == ucd::DT_NONE {
                continue;
            }
            if let Some(c) = char::from_u32(cp) {
                let n = ucd::nfkc_icu(&c.to_string());
                let mut it = n.chars();
                if let (Some(t), None) = (it.next(), it.next()) {
                    if t != c {
                        compat.entry(t).or_default().push(c);
                    }
                }
            }
        }
        Inv { width, compat }
    })
}

/// equivalence-flavoured rewrites of a string (the model decides what they really do)
pub fn variant(base: &str, ops: &[(u8, u32)]) -> String {
    let d = db();
    let mut cs: Vec<char> = base.chars().collect();
    for (kind, r) in ops {
        let n = cs.len();
        let at = if n == 0 { 0 } else { ((*r as u64 * n as u64) >> 32) as usize };
        match kind % 12 {
            9 if n > 0 => {
                // flip bit 5 of an ASCII character ('[' <-> '{', '@' <-> '`', letters change case)
                if cs[at].is_ascii() {
                    cs[at] = ((cs[at] as u8) ^ 0x20) as char;
                }
            }
            10 => cs.push('!'),
            11 => {
                cs.pop();
            }
            0 if n > 0 => {
                // flip the case of every character / of one character
                let c = cs[at];
                let mut up = c.to_uppercase();
                let mut lo = c.to_lowercase();
                if let (Some(u), None) = (up.next(), up.next()) {
                    if u != c {
                        cs[at] = u;
                        continue;
                    }
                }
                if let (Some(x), None) = (lo.next(), lo.next()) {
                    cs[at] = x;
                }
            }
            1 => {
                cs = cs.iter().flat_map(|c| c.to_uppercase()).collect();
            }
            2 if n > 0 => {
                if let Some(srcs) = inv().width.get(&cs[at]) {
                    cs[at] = srcs[*r as usize % srcs.len()];
                }
            }
            3 if n > 0 => {
                // another space for a space
                if let Some(i) = (0..n).map(|k| (at + k) % n).find(|i| d.is_zs16(cs[*i])) {
                    let zs = &pools().zs;
                    cs[i] = zs[*r as usize % zs.len()];
                }
            }
            4 => {
                // extra spaces: leading, trailing or doubled
                match r % 3 {
                    0 => cs.insert(0, ' '),
                    1 => cs.push('\u{3000}'),
                    _ => {
                        if let Some(i) = (0..n).find(|i| d.is_zs16(cs[*i])) {
                            cs.insert(i, '\u{a0}');
                        }
                    }
                }
            }
            5 => {
                let s: String = cs.iter().collect();
                cs = ucd::nfd_icu(&s).chars().collect();
            }
            6 => {
                let s: String = cs.iter().collect();
                cs = ucd::nfkd_icu(&s).chars().collect();
            }
            7 if n > 0 => {
                if let Some(srcs) = inv().compat.get(&cs[at]) {
                    cs[at] = srcs[*r as usize % srcs.len()];
                }
            }
            8 if n > 0 => {
                // near miss
                cs[at] = if cs[at] == 'x' { 'y' } else { 'x' };
            }
            _ => {}
        }
    }
    cs.into_iter().collect()
}

fn form(p: Prof, s: &str) -> (Alts, Trace) {
    let mut tr = Trace::default();
    let a = model_form(p, s, &mut tr);
    (a, tr)
}
fn single_ok(a: &Alts) -> Option<&String> {
    if a.len() == 1 { a[0].as_ref().ok() } else { None }
}
fn errs(a: &Alts) -> Vec<RErr> {
    a.iter().filter_map(|r| r.as_ref().err().cloned()).collect()
}

/// the model's allowed results of compare(a,b)
fn want_compare(fa: &Alts, fb: &Alts) -> Vec<Result<bool, RErr>> {
    match (single_ok(fa), single_ok(fb)) {
        (Some(x), Some(y)) => vec![Ok(x == y)],
        (None, _) => errs(fa).into_iter().map(Err).collect(),
        (Some(_), None) => errs(fb).into_iter().map(Err).collect(),
    }
}

pub fn check_pair(run: &Run, p: Prof, a: &str, b: &str, l: &mut Local) -> Check {
    let (fa, ta) = form(p, a);
    let (fb, tb) = form(p, b);
    let want = want_compare(&fa, &fb);
    let want_s = || want.iter().map(fmt_cmp).collect::<Vec<_>>().join(" | ");
    l.eval();
    let got = match guard(|| imp_compare(p, a, b)) {
        Ok(g) => g,
        Err(pn) => return Err(Violation::new(cmp_json(p, a, b), want_s(), format!("panic: {pn}"))),
    };
    let mut excused = false;
    if !want.contains(&got) {
        // K1 on the side that decides the error
        let k1 = p.is_username()
            && got == Err(RErr::Invalid)
            && (k1_explains(run, &ta, &Err(RErr::Invalid), &fa) || (single_ok(&fa).is_some() && k1_explains(run, &tb, &Err(RErr::Invalid), &fb)));
        let domain = (ta.unlisted16 || tb.unlisted16) && p.is_username();
        if k1 {
            l.known(K1);
            excused = true;
        } else if domain {
            l.label("excused_unassigned16_at_bidi_step");
            excused = true;
        } else {
            let want2 = with_alt_norm(|| want_compare(&form(p, a).0, &form(p, b).0));
            if want2 != want && want2.contains(&got) {
                l.skew += 1;
                excused = true;
            } else {
                return Err(Violation::new(cmp_json(p, a, b), want_s(), fmt_cmp(&got)));
            }
        }
    }
    // the static fast-invocation entry point gives the same answer
    l.eval();
    let st = guard(|| imp_compare_static(p, a, b)).map_err(|pn| Violation::new(cmp_json(p, a, b), "no panic", pn))?;
    if st != got {
        return Err(Violation::new(cmp_json(p, a, b), format!("PrecisFastInvocation::compare == Profile::compare == {}", fmt_cmp(&got)), fmt_cmp(&st)));
    }
    // username / password profiles: compare(a,b) == (enforce(a)? == enforce(b)?) with the implementation's own enforce
    if p != Prof::Nick {
        l.evals_n(2);
        let ea = imp_enforce(p, a);
        let eb = imp_enforce(p, b);
        let via = match (&ea, &eb) {
            (Err(e), _) => Err(e.clone()),
            (Ok(_), Err(e)) => Err(e.clone()),
            (Ok(x), Ok(y)) => Ok(x == y),
        };
        if via != got {
            return Err(Violation::new(cmp_json(p, a, b), format!("enforce(a)? == enforce(b)? = {}", fmt_cmp(&via)), fmt_cmp(&got)));
        }
    }
    if !excused {
        let both_ok = single_ok(&fa).is_some() && single_ok(&fb).is_some();
        let both_rej_diff = single_ok(&fa).is_none() && single_ok(&fb).is_none() && fa != fb;
        if (both_ok && a != b) || both_rej_diff {
            l.nt(hash64(&(p, a, b)));
            l.label(match &got {
                Ok(true) => "accepted_pair:equal_forms",
                Ok(false) => "accepted_pair:different_forms",
                Err(_) => "both_rejected_different_errors",
            });
            if l.want_sample() {
                l.sample(json!({"profile": p.name(), "a": esc(a), "b": esc(b), "compare": fmt_cmp(&got)}));
            }
        } else if both_ok {
            l.label("identical_inputs");
        } else {
            l.label("one_side_rejected");
        }
    }
    Ok(())
}

/// equivalence laws on the implementation itself
pub fn check_laws(run: &Run, p: Prof, a: &str, b: &str, c: &str, l: &mut Local) -> Check {
    let _ = run;
    let cmp = |x: &str, y: &str| imp_compare(p, x, y);
    let law = |name: &str, exp: String, obs: String| Violation::new(json!({"op": "laws", "profile": p.name(), "a": jstr(a), "b": jstr(b), "c": jstr(c), "law": name}), exp, obs);
    l.evals_n(9);
    let (aa, bb, cc) = (cmp(a, a), cmp(b, b), cmp(c, c));
    for (n, r) in [("a", &aa), ("b", &bb), ("c", &cc)] {
        if let Ok(false) = r {
            return Err(law("reflexive", format!("compare({n},{n}) is Ok(true) or an error"), "Ok(false)".into()));
        }
    }
    let (ab, ba, bc, cb, ac, ca) = (cmp(a, b), cmp(b, a), cmp(b, c), cmp(c, b), cmp(a, c), cmp(c, a));
    let acc = |r: &Result<bool, RErr>| r.is_ok();
    for (n, x, y, sx, sy) in [("a,b", &ab, &ba, &aa, &bb), ("b,c", &bc, &cb, &bb, &cc), ("a,c", &ac, &ca, &aa, &cc)] {
        // both accepted <=> both self-comparisons are Ok
        if acc(sx) && acc(sy) {
            if !acc(x) || !acc(y) {
                return Err(law("total_on_accepted", format!("compare({n}) is Ok when both strings are accepted"), format!("{x:?} / {y:?}")));
            }
            if x != y {
                return Err(law("symmetric", format!("compare({n}) == compare(reversed)"), format!("{x:?} vs {y:?}")));
            }
        } else if acc(x) || acc(y) {
            return Err(law("strict_errors", format!("compare({n}) is an error when one string is rejected"), format!("{x:?} / {y:?}")));
        }
    }
    if ab == Ok(true) && bc == Ok(true) && ac != Ok(true) {
        return Err(law("transitive", "compare(a,c) = Ok(true)".into(), format!("{ac:?}")));
    }
    if acc(&aa) && acc(&bb) && acc(&cc) && (a != b || b != c) {
        l.nt(hash64(&(p, a, b, c)));
        l.label(if ab == Ok(true) && bc == Ok(true) { "triple_all_equal" } else if ab == Ok(true) || bc == Ok(true) || ac == Ok(true) { "triple_some_equal" } else { "triple_all_different" });
    }
    Ok(())
}

fn ops() -> BoxedStrategy<Vec<(u8, u32)>> {
    vec((0u8..12, any::<u32>()), 0..=3).boxed()
}

pub fn run(run: &Run) {
    run.set_rule(
        "Generator: per profile, a base string a (the valid-biased pipeline generators of C04/C05/C06) and variants v(a) produced by up to three \
         proptest-chosen rewrites (case flip of one character / all characters, fullwidth-halfwidth source for a character, another Zs for a space, \
         extra leading/trailing/doubled spaces, NFD respelling, NFKD respelling, compatibility look-alike, near-miss letter change): pairs (a,v(a)), \
         (v1(a),v2(a)), independent pairs (a,b), pairs with one or both sides invalid; triples (a,v1(a),v2(a)) for the laws. Oracle: model \
         compare = form(a)? then form(b)? then equality, where form = the C04/C05 enforce model or, for Nickname, reference stabilize of (validate; \
         space rule; per-char to_lowercase; ICU4X NFKC); the error must be the first string's; PrecisFastInvocation::compare agrees; for username and \
         password profiles compare(a,b) == (enforce(a)? == enforce(b)?) with the implementation's enforce; reflexive/symmetric/transitive/strict-error \
         laws on triples. Non-trivial: both sides accepted and not byte-identical, or both rejected with different errors; distinct = distinct \
         (profile,a,b) / (profile,a,b,c). Plus the deterministic long-input / call-order batteries of DESIGN.md 8.1 and 8.2 that apply to this property (extreme scale, mark neighbours, distinct runs with repeats, environment children, thread lifetime, concurrent distinct inputs; alignment sweeps 0..72 and around 128..65536 bytes, runs and exact counts, sandwiches and multi-megabyte inputs, exhaustive pair sets, plane/byte aliases, hash-colliding pairs back to back, owned arguments with spare capacity); each battery is a finite list enumerated completely and appears as its own section in 'sections'.",
    );
    run.assume("K1 (interior NSM) is a listed known finding, excused only on the side whose model trace matches the C04/K1 signature");
    let mk_pairs = || {
        (0..4usize).prop_flat_map(|pi| {
            let p = PROFS[pi];
            (Just(pi), strings_for(p), strings_for(p), ops(), ops(), 0u8..10)
        })
    };
    run.prop("pairs", run.pick(1_200_000, 40_000_000), mk_pairs, |(pi, a, b2, o1, o2, mode), l| {
        let p = PROFS[*pi];
        let (x, y) = match *mode {
            0..=4 => (a.clone(), variant(a, o1)),
            5..=7 => (variant(a, o1), variant(a, o2)),
            _ => (a.clone(), b2.clone()),
        };
        check_pair(run, p, &x, &y, l)
    });
    // every ASCII character against the character that differs in bit 5 only, at every alignment 0..=24 (packed case folding)
    run.par("ascii_bit5_pairs", true, |tid, n, l| {
        for c in 0x20u8..0x7f {
            if c as usize % n != tid {
                continue;
            }
            let d = c ^ 0x20;
            if !(0x20..0x7f).contains(&d) {
                continue;
            }
            for k in 0..=24usize {
                for tail in ["", "bcdefgh", "bcdefghijklmnopqrstuvw"] {
                    let a = format!("{}{}{tail}", "a".repeat(k), c as char);
                    let b = format!("{}{}{tail}", "a".repeat(k), d as char);
                    for p in PROFS {
                        l.cases += 1;
                        if let Err(v) = check_pair(run, p, &a, &b, l) {
                            run.violate(v);
                            return;
                        }
                    }
                }
            }
        }
    });
    // a string against itself plus / minus one trailing character, in both orders, up to 1 MiB+
    run.par("prefix_plus_one_pairs", true, |tid, n, l| {
        let bases: Vec<String> = [1usize, 7, 8, 9, 64, 1000, 4096, 70_000, 1_100_000].iter().map(|k| "correct horse battery staple ".chars().cycle().take(*k).collect()).collect();
        for (i, base) in bases.iter().enumerate() {
            if i % n != tid {
                continue;
            }
            for extra in ["!", "a", "\u{e9}", " "] {
                let longer = format!("{base}{extra}");
                for p in PROFS {
                    for (x, y) in [(&longer, base), (base, &longer)] {
                        l.cases += 1;
                        if let Err(v) = check_pair(run, p, x, y, l) {
                            run.violate(Violation::new(json!({"op": "compare_prefix_plus_one", "profile": p.name(), "base_chars": base.chars().count(), "extra": extra, "longer_first": x.len() > y.len()}), v.expected, v.observed));
                            return;
                        }
                    }
                }
            }
        }
    });
    // a string against itself plus k more characters (length differences around every power of two up to 2^17, and multiples of 256)
    run.par("prefix_plus_k_pairs", true, |tid, n, l| {
        let mut ks: Vec<usize> = (1..=17u32).flat_map(|b| [(1usize << b) - 1, 1 << b, (1 << b) + 1]).collect();
        ks.extend([768usize, 1280, 3 << 16, 1 << 20]);
        let bases: Vec<String> = ["correct horse", "a", "correct horse battery staple correct horse battery staple correct horse battery staple"].iter().map(|s| s.to_string()).collect();
        let mut idx = 0usize;
        for base in &bases {
            for k in &ks {
                for extra in ['x', '\u{e9}', ' '] {
                    idx += 1;
                    if idx % n != tid || (extra != 'x' && *k > 70_000) {
                        continue;
                    }
                    if run.stopped() {
                        return;
                    }
                    let tail: String = std::iter::repeat(extra).take(*k).collect();
                    let longer = format!("{base}{tail}");
                    let longer2 = format!("{base}{tail}y");
                    for p in PROFS {
                        for (x, y) in [(&longer, base), (base, &longer), (&longer2, &longer)] {
                            l.cases += 1;
                            if let Err(v) = check_pair(run, p, x, y, l) {
                                run.violate(Violation::new(json!({"op": "compare_prefix_plus_k", "profile": p.name(), "base": base, "extra": extra.to_string(), "k": k, "first_chars": x.chars().count(), "second_chars": y.chars().count()}), v.expected, v.observed));
                                return;
                            }
                        }
                    }
                }
            }
        }
    });
    // equal up to the number of spaces: every gap / the lead / the tail inflated to n spaces (length ratios up to 10000 : 1), and
    // all-space strings of those lengths against a short partner
    run.par("space_inflated_pairs", true, |tid, n, l| {
        let ns: Vec<usize> = (1..=12usize).chain([31, 32, 33, 63, 64, 65, 70, 71, 72, 73, 74, 100, 143, 144, 145, 199, 200, 255, 256, 257, 300, 1000, 4096, 10_000, 70_000]).collect();
        let mut idx = 0usize;
        for base in ["a b", "a", "x y z", "\u{e9} \u{fc}", "Foo Bar"] {
            for k in &ns {
                idx += 1;
                if idx % n != tid {
                    continue;
                }
                let sp = " ".repeat(*k);
                let variants = [base.replace(' ', &sp), format!("{sp}{base}"), format!("{base}{sp}"), format!("{sp}{}{sp}", base.replace(' ', &sp)), sp.clone(), base.replace(' ', &"\u{3000}".repeat(*k))];
                for v2 in &variants {
                    for p in PROFS {
                        for (x, y) in [(base, v2.as_str()), (v2.as_str(), base), (v2.as_str(), "a")] {
                            l.cases += 1;
                            if let Err(v) = check_pair(run, p, x, y, l) {
                                run.violate(v);
                                return;
                            }
                        }
                    }
                }
            }
        }
    });
    {
        let mut all = mark_neighbour_strings(1);
        all.extend(mark_neighbour_strings(2));
        battery(run, "mark_neighbours", &all, &|s, l| {
            let partner = crate::ucd::nfkc_icu(&ref_lower(s));
            for p in [Prof::Nick, Prof::UserMapped, Prof::Opaque] {
                if let Err(v) = check_pair(run, p, s, &partner, l) {
                    run.violate(v);
                    return false;
                }
            }
            true
        });
    }
    battery(run, "respelled_middle_dot", &respelled_middle_dot_strings(), &|s, l| {
        for p in PROFS {
            for partner in ["l\u{b7}l", s] {
                if let Err(v) = check_pair(run, p, s, partner, l) {
                    run.violate(v);
                    return false;
                }
                if let Err(v) = check_pair(run, p, partner, s, l) {
                    run.violate(v);
                    return false;
                }
            }
        }
        true
    });
    // distinct equal-length strings that collide under common 32-bit hashes must still compare as different
    run.par("fingerprint_collisions", true, |tid, _n, l| {
        if tid != 0 {
            return;
        }
        for (_, a, b) in crate::gens::fingerprint_collisions().iter() {
            for p in PROFS {
                for (x, y) in [(a, b), (b, a), (a, a)] {
                    l.cases += 1;
                    if let Err(v) = check_pair(run, p, x, y, l) {
                        run.violate(v);
                        return;
                    }
                }
            }
        }
    });
    // long inputs: each stress string against its lower-cased / width-mapped / space-varied respelling
    let pl: Vec<&str> = PAYLOADS_SPACE.iter().chain(PAYLOADS_FREE.iter()).chain(PAYLOADS_USER.iter()).copied().collect();
    stress(run, "alignment_and_runs", &pl, &|s, l| {
        let lower = ref_lower(s);
        let upper: String = s.chars().flat_map(|c| c.to_uppercase()).collect();
        let spaced = s.replace(' ', "\u{2003}");
        for p in PROFS {
            for b in [&lower, &upper, &spaced] {
                if let Err(v) = check_pair(run, p, s, b, l) {
                    run.violate(v);
                    return false;
                }
            }
        }
        true
    });
    let mk_triples = || {
        (0..4usize).prop_flat_map(|pi| {
            let p = PROFS[pi];
            (Just(pi), strings_for(p), ops(), ops())
        })
    };
    run.prop("triples_laws", run.pick(400_000, 12_000_000), mk_triples, |(pi, a, o1, o2), l| {
        let p = PROFS[*pi];
        check_laws(run, p, a, &variant(a, o1), &variant(a, o2), l)
    });
}

pub fn replay(run: &Run, case: &Value) -> Check {
    let p = Prof::from_name(case["profile"].as_str().unwrap()).expect("profile");
    let mut l = Local::default();
    match case["op"].as_str() {
        Some("compare_prefix_plus_one") => {
            let base: String = "correct horse battery staple ".chars().cycle().take(case["base_chars"].as_u64().unwrap() as usize).collect();
            let longer = format!("{base}{}", case["extra"].as_str().unwrap());
            if case["longer_first"].as_bool().unwrap() { check_pair(run, p, &longer, &base, &mut l) } else { check_pair(run, p, &base, &longer, &mut l) }
        }
        Some("compare_prefix_plus_k") => {
            let base = case["base"].as_str().unwrap();
            let extra = case["extra"].as_str().unwrap().chars().next().unwrap();
            let mk = |chars: u64| -> String {
                let b = base.chars().count() as u64;
                let k = case["k"].as_u64().unwrap();
                let mut s: String = base.to_string();
                s.extend(std::iter::repeat(extra).take((chars.saturating_sub(b)).min(k) as usize));
                if chars > b + k {
                    s.push('y');
                }
                s
            };
            check_pair(run, p, &mk(case["first_chars"].as_u64().unwrap()), &mk(case["second_chars"].as_u64().unwrap()), &mut l)
        }
        Some("laws") => check_laws(run, p, &jget_str(case, "a").unwrap(), &jget_str(case, "b").unwrap(), &jget_str(case, "c").unwrap(), &mut l),
        _ => check_pair(run, p, &jget_str(case, "a").unwrap(), &jget_str(case, "b").unwrap(), &mut l),
    }
}
