//! Shared machinery for the profile pipeline properties (C04-C08): implementation vs model
//! with the known-finding K1 signature and the normalisation skew guard.
use crate::engine::*;
use crate::gens::{self, pools};
use crate::model::*;
use crate::ucd::db;
use proptest::collection::vec;
use proptest::prelude::*;
use serde_json::{json, Value};

pub const K1: &str = "K1-interior-nsm";

pub fn op_name(op: Op) -> &'static str {
    match op {
        Op::Prepare => "prepare",
        Op::Enforce => "enforce",
    }
}
pub fn case_json(p: Prof, op: Op, s: &str) -> Value {
    json!({"op": op_name(op), "profile": p.name(), "input": jstr(s)})
}

pub struct Outcome {
    pub got: RRes,
    pub want: Alts,
    pub trace: Trace,
    /// true when a mismatch was explained by a known finding / skew / domain limit
    pub excused: bool,
}

pub fn model(p: Prof, op: Op, s: &str, tr: &mut Trace) -> Alts {
    match op {
        Op::Prepare => model_prepare(p, s, tr),
        Op::Enforce => model_enforce(p, s, tr),
    }
}
pub fn imp(p: Prof, op: Op, s: &str) -> Result<RRes, String> {
    guard(|| {
        let borrowed = match op {
            Op::Prepare => imp_prepare(p, s),
            Op::Enforce => imp_enforce(p, s),
        };
        // the same call with an owned argument that has spare capacity must give the same content (in-place fast paths);
        // a difference is reported as the observed value so that it fails against the model
        let owned = imp_owned(p, op, s);
        if owned != borrowed {
            return Err(RErr::Missing { cp: 0xffff_fff0, pos: 0, prop: crate::ucd::Dpv::Disallowed }).or_else(|_: RErr| -> RRes { Ok(format!("<<owned argument gives {} but borrowed argument gives {}>>", fmt_res(&owned), fmt_res(&borrowed))) });
        }
        borrowed
    })
}
fn imp_owned(p: Prof, op: Op, s: &str) -> RRes {
    use precis_core::profile::Profile;
    use precis_profiles::{Nickname, OpaqueString, UsernameCaseMapped, UsernameCasePreserved};
    let mut o = String::with_capacity(s.len() * 2 + 77);
    o.push_str(s);
    obs(&match (p, op) {
        (Prof::UserMapped, Op::Prepare) => UsernameCaseMapped::new().prepare(o),
        (Prof::UserMapped, Op::Enforce) => UsernameCaseMapped::new().enforce(o),
        (Prof::UserPreserved, Op::Prepare) => UsernameCasePreserved::new().prepare(o),
        (Prof::UserPreserved, Op::Enforce) => UsernameCasePreserved::new().enforce(o),
        (Prof::Opaque, Op::Prepare) => OpaqueString::new().prepare(o),
        (Prof::Opaque, Op::Enforce) => OpaqueString::new().enforce(o),
        (Prof::Nick, Op::Prepare) => Nickname::new().prepare(o),
        (Prof::Nick, Op::Enforce) => Nickname::new().enforce(o),
    })
}

/// is `got` = Err(Invalid) on this model trace explained by K1 (RFC accepts, interior NSM)?
pub fn k1_explains(run: &Run, tr: &Trace, got: &RRes, want: &Alts) -> bool {
    if !run.sig_active(K1) || *got != Err(RErr::Invalid) {
        return false;
    }
    match (&tr.bidi_input, want.as_slice()) {
        (Some(b), [Ok(w)]) if w == b => has_interior_nsm(&bidi_classes16(b)) && tr.has_rtl,
        _ => false,
    }
}

pub fn check_pipe(run: &Run, p: Prof, op: Op, s: &str, l: &mut Local) -> Result<Outcome, Violation> {
    let mut tr = Trace::default();
    let want = model(p, op, s, &mut tr);
    l.eval();
    let got = match imp(p, op, s) {
        Ok(g) => g,
        Err(pn) => return Err(Violation::new(case_json(p, op, s), fmt_alts(&want), format!("panic: {pn}"))),
    };
    if want.contains(&got) {
        return Ok(Outcome { got, want, trace: tr, excused: false });
    }
    if k1_explains(run, &tr, &got, &want) {
        l.known(K1);
        return Ok(Outcome { got, want, trace: tr, excused: true });
    }
    // characters not assigned in Unicode 16.0.0 have no reference bidi class: the directionality
    // step is outside the stated domain for them
    if tr.unlisted16 {
        let bidi_only = match (&got, want.as_slice()) {
            (Err(RErr::Invalid), [Ok(_)]) => true,
            (Ok(g), [Err(RErr::Invalid)]) => tr.bidi_input.as_deref() == Some(g.as_str()),
            _ => false,
        };
        if bidi_only {
            l.label("excused_unassigned16_at_bidi_step");
            return Ok(Outcome { got, want, trace: tr, excused: true });
        }
    }
    // normalisation data skew between ICU4X and unicode-normalization?
    let mut tr2 = Trace::default();
    let want2 = with_alt_norm(|| model(p, op, s, &mut tr2));
    if want2 != want && (want2.contains(&got) || k1_explains(run, &tr2, &got, &want2)) {
        l.skew += 1;
        return Ok(Outcome { got, want, trace: tr, excused: true });
    }
    Err(Violation::new(case_json(p, op, s), fmt_alts(&want), fmt_res(&got)))
}

pub fn shrink_report(run: &Run, p: Prof, op: Op, s: &str) {
    let fails = |c: &[char]| {
        let t: String = c.iter().collect();
        let mut sc = Local::default();
        sc.frozen = true;
        check_pipe(run, p, op, &t, &mut sc).is_err()
    };
    let t: String = shrink_chars(s.chars().collect(), &fails).iter().collect();
    let mut sc = Local::default();
    sc.frozen = true;
    if let Err(v) = check_pipe(run, p, op, &t, &mut sc) {
        run.violate(v);
    } else if let Err(v) = check_pipe(run, p, op, s, &mut Local::scratch()).map(|_| ()) {
        // the shrunk copy (a freshly allocated String) passes: the failure depends on the argument as it was handed over (e.g. the
        // address of a &str view); reported as found
        run.violate(v);
    }
}

// ---------------------------------------------------------------------------------------------
// generators

/// risky characters for identifier (username) inputs
pub fn risky_id() -> BoxedStrategy<char> {
    let p = pools();
    prop_oneof![
        20 => gens::pick(&p.width),
        20 => gens::pick(&p.cased),
        10 => gens::pick(&p.norm),
        5 => gens::pick(&p.compose_tail),
        10 => gens::pick(&p.ctx),
        20 => gens::pick(&p.rtl),
        5 => gens::pick(&p.zs),
        10 => gens::gchar(),
    ]
    .boxed()
}
pub fn username_strings() -> BoxedStrategy<String> {
    let p = pools();
    let rtl_base: BoxedStrategy<String> = vec(prop_oneof![6 => gens::pick(&p.rtl), 2 => gens::pick(&p.norm), 1 => gens::pick(&p.cased), 1 => gens::pick(&p.width)], 1..=8)
        .prop_map(gens::s_of)
        .boxed();
    let mixed: BoxedStrategy<String> = vec(prop_oneof![3 => gens::pick(&p.id_valid), 2 => gens::pick(&p.cased), 2 => gens::pick(&p.norm), 2 => gens::pick(&p.width), 1 => gens::pick(&p.ctx)], 0..=10)
        .prop_map(gens::s_of)
        .boxed();
    gens::padded(gens::respelled(
        prop_oneof![
            25 => gens::valid_biased(&p.id_friendly, risky_id()),
            20 => gens::valid_biased(&p.id_valid, risky_id()),
            20 => mixed,
            20 => rtl_base,
            15 => gens::gstring(),
        ]
        .boxed(),
    ))
}
pub fn risky_ff() -> BoxedStrategy<char> {
    let p = pools();
    prop_oneof![
        30 => gens::pick(&p.zs),
        15 => gens::pick(&p.nfkc_space),
        15 => gens::pick(&p.compat_ff),
        10 => gens::pick(&p.norm),
        5 => gens::pick(&p.compose_tail),
        10 => gens::pick(&p.cased),
        5 => gens::pick(&p.ctx),
        10 => gens::gchar(),
    ]
    .boxed()
}
pub fn freeform_strings() -> BoxedStrategy<String> {
    let p = pools();
    let spacey: BoxedStrategy<String> = vec(prop_oneof![3 => gens::pick(&p.zs), 2 => Just(' '), 2 => gens::pick(&p.nfkc_space), 4 => gens::pick(&p.ff_valid), 2 => gens::pick(&p.compat_ff), 2 => gens::pick(&p.norm)], 0..=12)
        .prop_map(gens::s_of)
        .boxed();
    gens::padded(gens::respelled(
        prop_oneof![
            40 => gens::valid_biased(&p.ff_valid, risky_ff()),
            35 => spacey,
            10 => gens::ascii_words(),
            15 => gens::gstring(),
        ]
        .boxed(),
    ))
}
pub fn strings_for(p: Prof) -> BoxedStrategy<String> {
    if p.is_username() { username_strings() } else { freeform_strings() }
}

pub fn is_non_ascii_zs(c: char) -> bool {
    c != ' ' && db().is_zs16(c)
}

/// small-scope exhaustive enumeration: every string of length 0..=maxlen over `alpha`, partitioned over the threads;
/// `f` returns false to stop this thread (after reporting a violation)
pub fn enum_strings(run: &Run, section: &str, alpha: &[char], maxlen: u32, f: &(dyn Fn(&str, &mut Local) -> bool + Sync)) {
    let a = alpha.len() as u64;
    let mut total = 0u64;
    for len in 0..=maxlen {
        total += a.pow(len);
    }
    run.par(section, true, |tid, n, l| {
        let mut idx = tid as u64;
        let mut s = String::new();
        while idx < total {
            if idx % 2048 < n as u64 && run.stopped() {
                return;
            }
            let mut rem = idx;
            let mut len = 0u32;
            loop {
                let c = a.pow(len);
                if rem < c {
                    break;
                }
                rem -= c;
                len += 1;
            }
            s.clear();
            for _ in 0..len {
                s.push(alpha[(rem % a) as usize]);
                rem /= a;
            }
            l.cases += 1;
            if !f(&s, l) {
                return;
            }
            idx += n as u64;
        }
    });
}

/// the same enumeration (shorter strings) behind and in front of long pads of valid characters
pub fn enum_strings_padded(run: &Run, section: &str, alpha: &[char], maxlen: u32, f: &(dyn Fn(&str, &mut Local) -> bool + Sync)) {
    let pads: Vec<(String, String)> = vec![
        (gens::pad(0, 4), String::new()),
        (gens::pad(1, 5), String::new()),
        (gens::pad(3, 8), "z".to_string()),
        (gens::pad(2, 11), String::new()),
        (String::new(), gens::pad(1, 9)),
        (gens::pad(5, 13), gens::pad(0, 3)),
    ];
    enum_strings(run, section, alpha, maxlen, &|s, l| {
        for (a, b) in &pads {
            if !f(&format!("{a}{s}{b}"), l) {
                return false;
            }
        }
        true
    });
}

/// alphabet for username pipelines: every step has something to do and the steps interact
pub const ALPHA_USER: [char; 32] = [
    'a', 'A', '1', '\u{ff21}', '\u{ff41}', '\u{ff11}', '\u{ff76}', '\u{ff9e}', '\u{30ab}', '\u{3099}', '\u{e9}', '\u{c9}', 'e', '\u{301}', '\u{30a}', '\u{212b}', '\u{130}', '\u{1c5}',
    '\u{3a3}', '\u{3c2}', '\u{5d0}', '\u{5b8}', '\u{627}', '\u{661}', '\u{6f1}', '\u{200d}', '\u{94d}', '\u{b7}', 'l', '-', '\u{13a0}', '\u{10400}',
];
/// alphabet for the freeform pipelines (passwords, nicknames)
pub const ALPHA_FREE: [char; 28] = [
    'a', 'A', ' ', '\u{a0}', '\u{3000}', '\u{2003}', '\u{a8}', '\u{2017}', '\u{1fbf}', '\u{fdfa}', '\u{e9}', 'e', '\u{301}', '\u{308}', '\u{212b}', '\u{fb01}', '\u{2163}', '\u{ff21}',
    '\u{3131}', '\u{ffa1}', '\u{fe71}', '\u{1d11e}', '\u{130}', '\u{3a3}', '\u{200d}', '\u{94d}', '\u{0}', '\u{ff65}',
];

/// Alignment and run stress: every payload behind 0..=72 ASCII characters (all alignments through 16/32/64-byte blocks),
/// optionally bridged by one 2/3/4-byte character, with three tails; and runs of 1..=70 combining marks of several kinds
/// (long runs of non-starters / transparent characters), alone and behind a pad.
pub fn stress_strings(payloads: &[&str]) -> Vec<String> {
    let mut v = Vec::new();
    for p in payloads {
        for k in 0..=72usize {
            for bridge in ["", "\u{e9}", "\u{6f22}", "\u{10428}"] {
                for tail in ["", "z", "zzzzzzzzzzzzzzzzzzzz", "\u{e9}", "zz\u{a8}x", " \u{6f22}zzzzzzzzzzzzzzzz\u{e9}"] {
                    v.push(format!("{}{}{}{}", "a".repeat(k), bridge, p, tail));
                }
            }
        }
        // dense around the usual block sizes (a pair that straddles a 128/256/512/1024/2048/4096-byte cut)
        for (lo, hi) in [(118usize, 136usize), (246, 264), (502, 520), (1008, 1030), (2036, 2056), (4084, 4100)] {
            for k in lo..=hi {
                v.push(format!("{}{}", "a".repeat(k), p));
                v.push(format!("{}\u{e9}{}z", "a".repeat(k), p));
                v.push(format!("e\u{301}e\u{301}e\u{301}{}{}z", "a".repeat(k), p));
            }
        }
        // exact repetition counts (8-bit / 16-bit counters)
        for n in [255usize, 256, 257, 511, 512, 513] {
            v.push(format!("x{}y", p.repeat(n)));
        }
    }
    // sandwiches: an early payload, a long filler, a late payload (fast paths that switch mode after the first hit)
    let ks: Vec<usize> = [15usize, 16, 17, 31, 32, 33, 63, 64, 65, 127, 128, 129, 255, 256, 257, 1023, 1024, 1025, 8191, 8192, 8193]
        .into_iter()
        .chain(4088..=4100)
        .chain([65535, 65536, 65537])
        .collect();
    for p in payloads.iter().take(8) {
        for q in payloads.iter().take(8) {
            for k in &ks {
                v.push(format!("{p}{}{q}", "a".repeat(*k)));
            }
        }
    }
    // dense sweeps of the filler length around 8 KiB, 16 KiB, 32 KiB and 64 KiB for a few payload pairs (staging buffers)
    for p in payloads.iter().take(3) {
        for q in payloads.iter().take(3) {
            for (lo, hi) in [(8176usize, 8200usize), (16376, 16392), (32760, 32776), (65528, 65544)] {
                for k in lo..=hi {
                    v.push(format!("{p}{}{q}", "a".repeat(k)));
                }
            }
        }
    }
    // characters whose code point has the low byte (or low 16 bits) of an interesting ASCII character
    for x in [0x20u32, 0x41, 0x5a, 0x61, 0x7a, 0x30, 0x2d, 0x5f, 0x09, 0x0a, 0xa0, 0x00] {
        for hi in [0x01u32, 0x04, 0x20, 0x4e, 0xa0, 0xff, 0x100, 0x1f6, 0x200] {
            if let Some(c) = char::from_u32((hi << 8) | x) {
                for t in [format!(" {c} b"), format!("a  {c} b"), format!("{c} {c}  x"), format!("a{c}"), format!("A{c}a {c}"), format!("\u{a0}{c}\u{a0}{c} z")] {
                    v.push(t);
                }
                if let Some(p) = payloads.first() {
                    v.push(format!("{p}{c} {p}{c}"));
                }
            }
        }
    }
    // huge inputs (scratch buffers that are kept between calls), followed in the list by ordinary ones
    for p in payloads.iter().take(3) {
        v.push(format!("{}{p}{}", "x".repeat(35_000), "y".repeat(35_000)));
        v.push(format!("a{p}"));
        v.push(format!("{}{p}", "x".repeat(140_000)));
        v.push(format!("b{p}c"));
    }
    // a long run of marks at the end of an input beyond 1 MiB; a payload behind / in front of 300 and 5000 spaces
    v.push(format!("{}e{}", "a".repeat((1 << 20) + 16), "\u{301}".repeat(40)));
    for p in payloads.iter().take(4) {
        v.push(format!("a{}b{p}", " ".repeat(300)));
        v.push(format!("{p}{}", " ".repeat(5000)));
        v.push(format!("a{}{p}{}b", " ".repeat(20), "  cdefghijklmnopqrstuvwxyz0123456789"));
    }
    // inputs beyond 1 MiB (lazy / streaming paths that only exist for very large arguments)
    if let Some(p) = payloads.first() {
        v.push(format!("{}{p}", "correct horse battery staple ".repeat(36_200)));
        v.push(format!("{}{p}!", "correct horse battery staple ".repeat(36_200)));
    }
    // ASCII labels with one single space and one double space at every relative distance
    for first in [1usize, 2, 7, 8, 9, 15, 16, 17, 31, 32, 33] {
        for gap in 1..=100usize {
            v.push(format!("{} {}  c", "a".repeat(first), "b".repeat(gap)));
        }
    }
    // many DISTINCT valid characters in one string (fixed-size sets / memo tables), alone and around each payload
    for base in [0x4e00u32, 0x3041, 0x430, 0xac00, 0x561, 0x10428, 0xe0, 0x5d0, 0x905] {
        for n in [15usize, 16, 17, 31, 32, 33, 63, 64, 65, 66, 127, 128, 129, 255, 256, 257, 300] {
            let run: String = (0..n as u32).filter_map(|i| char::from_u32(base + i)).collect();
            v.push(run.clone());
            v.push(format!("a{run}z"));
            if let Some(p) = payloads.first() {
                v.push(format!("{run}{p}"));
            }
        }
    }
    for mark in ['\u{301}', '\u{300}', '\u{323}', '\u{5bf}', '\u{64e}', '\u{3099}', '\u{94d}', '\u{1e2ae}'] {
        for n in 1..=70usize {
            let run: String = std::iter::repeat(mark).take(n).collect();
            v.push(format!("e{run}"));
            v.push(format!("{}e{run}x", "a".repeat(17)));
            v.push(format!("\u{5d0}{run}\u{5d1}"));
            // alternating with a second mark (reordering under normalisation)
            let alt: String = (0..n).map(|i| if i % 2 == 0 { mark } else { '\u{323}' }).collect();
            v.push(format!("a{alt}"));
        }
    }
    v
}

pub const PAYLOADS_SPACE: [&str; 12] = [" ", "\u{a0}", "\u{3000}", "\u{a0} t", "  ", " x ", "\u{3000} w\u{e9}", "\u{2003} ", "\u{a8}", "\u{fdfa}", "\u{1680}\u{205f}", "x\u{3000}\u{3000}y "];
pub const PAYLOADS_USER: [&str; 22] = [
    "\u{ff41}", "\u{3000}", "Z", "aZb", "A", "\u{1c5}", "\u{130}", "\u{3a3}", "\u{1f88}", "\u{10400}", "\u{ff21}", "\u{ff76}\u{ff9e}", "\u{ffe6}", "e\u{301}", "\u{212b}", "\u{5d0}", "\u{661}", "l\u{b7}l",
    "\u{94d}\u{200d}", "\u{9c7}\u{9be}", "\u{13a0}", "\u{5d0}\u{5b8}",
];
pub const PAYLOADS_FREE: [&str; 8] = ["e\u{301}", "\u{212b}", "\u{fb01}", "\u{3131}", "\u{2163}", "\u{9c7}\u{9be}", "A", "\u{ff21}"];

/// run `f` over the stress strings, partitioned over the threads
pub fn stress(run: &Run, section: &str, payloads: &[&str], f: &(dyn Fn(&str, &mut Local) -> bool + Sync)) {
    let all = stress_strings(payloads);
    run.par(section, true, |tid, n, l| {
        let mut buf = String::new();
        for (i, s) in all.iter().enumerate() {
            if i % n != tid {
                continue;
            }
            if i % 512 < n && run.stopped() {
                return;
            }
            l.cases += 1;
            // the i-th string is handed over as a view that starts i mod 16 bytes after an allocation boundary (pointer alignment is not
            // part of the argument's value)
            let view = view_at(&mut buf, s, (i / n + i / 384) % 16);
            if !f(view, l) {
                return;
            }
        }
    });
}

/// Back-to-back calls on pairs of distinct equal-length strings that collide under common 32-bit hashes (a, b, a again)
pub fn collisions(run: &Run, section: &str, f: &(dyn Fn(&str, &mut Local) -> bool + Sync)) {
    let pairs = gens::fingerprint_collisions();
    run.par(section, true, |tid, _n, l| {
        if tid != 0 {
            return; // one thread: the point is the call order on a single thread
        }
        for (_, a, b) in pairs.iter() {
            for s in [a, b, a] {
                l.cases += 1;
                if !f(s, l) {
                    return;
                }
            }
        }
    });
}

/// all (head, tail) pairs: every first character of a canonical decomposition followed by every character that occurs
/// later in one (all composing and non-composing combinations), in two templates
pub fn composing_pairs(run: &Run, section: &str, f: &(dyn Fn(&str, &mut Local) -> bool + Sync)) {
    let p = pools();
    run.par(section, true, |tid, n, l| {
        for (i, a) in p.compose_head.iter().enumerate() {
            if i % n != tid {
                continue;
            }
            if run.stopped() {
                return;
            }
            for b in p.compose_tail.iter() {
                for s in [format!("{a}{b}"), format!("x{a}{b}{b}y"), format!("{a}{b}\u{a0}x"), format!("\u{3000}z{a}{b}")] {
                    l.cases += 1;
                    if !f(&s, l) {
                        return;
                    }
                }
            }
        }
    });
}

/// run lengths for long-run batteries: everything up to 40, then around the usual thresholds
pub fn run_lengths() -> Vec<usize> {
    let mut v: Vec<usize> = (0..=40).collect();
    v.extend([41usize, 47, 48, 49, 63, 64, 65, 70, 71, 99, 100, 101, 127, 128, 129, 199, 200, 201, 255, 256, 257, 499, 500, 501, 511, 512, 513, 999, 1000, 1001, 1023, 1024, 1025, 4095, 4096, 4097]);
    v
}

/// ZWNJ between transparent runs (2-byte and 3-byte marks) of the lengths above on either side, with joining / non-joining ends
pub fn zwnj_run_labels() -> Vec<String> {
    let lens = run_lengths();
    let mut v = Vec::new();
    for (i, nb) in lens.iter().enumerate() {
        for (j, na) in lens.iter().enumerate() {
            // all combinations of short runs; long runs against a few partners
            if *nb > 40 && *na > 40 && i != j {
                continue;
            }
            if (*nb > 40 || *na > 40) && !(*nb <= 2 || *na <= 2 || i == j) {
                continue;
            }
            for (left, right, mb, ma) in [('\u{628}', '\u{628}', '\u{64e}', '\u{650}'), ('\u{626}', '\u{627}', '\u{5bf}', '\u{951}'), ('a', '\u{628}', '\u{64e}', '\u{64e}'), ('\u{628}', 'a', '\u{951}', '\u{64e}'), ('\u{94d}', 'a', '\u{64e}', '\u{650}')] {
                let mut s = String::new();
                s.push(left);
                s.extend(std::iter::repeat(mb).take(*nb));
                s.push('\u{200c}');
                s.extend(std::iter::repeat(ma).take(*na));
                s.push(right);
                v.push(s);
            }
        }
    }
    v
}

/// ZWNJ next to one very long transparent run (8192 .. 100000, around 2^15 and 2^16), on either side; `extra` adds longer ones
pub fn zwnj_huge_run_labels(extra: &[usize]) -> Vec<String> {
    let mut v = Vec::new();
    let mut lens = vec![8191usize, 8192, 8193, 16384, 30000, 32767, 32768, 32769, 32773, 65535, 65536, 65537, 100000];
    lens.extend_from_slice(extra);
    for n in lens {
        for (left, right, m) in [('\u{628}', '\u{628}', '\u{5bf}'), ('\u{626}', '\u{627}', '\u{64e}'), ('\u{628}', 'a', '\u{951}')] {
            for other in [0usize, 2] {
                let run: String = std::iter::repeat(m).take(n).collect();
                let short: String = std::iter::repeat('\u{650}').take(other).collect();
                v.push(format!("{left}{run}\u{200c}{short}{right}"));
                v.push(format!("{left}{short}\u{200c}{run}{right}"));
            }
        }
        // nothing in front of the run (the scan runs off the start of the label)
        let run: String = std::iter::repeat('\u{5bf}').take(n).collect();
        v.push(format!("{run}\u{200c}\u{628}"));
        v.push(format!("\u{628}\u{200c}{run}"));
    }
    v
}

/// whole-label rules on labels beyond 2^16 / 2^20 / 2^22 code points: the deciding code point is the very last / first one
pub fn huge_whole_label_labels(extra: &[usize]) -> Vec<String> {
    let mut v = Vec::new();
    let mut lens = vec![65536usize, 1 << 20, (1 << 20) + 1, 1 << 22];
    lens.extend_from_slice(extra);
    for n in lens {
        for fill in ['a', '\u{e9}'] {
            if fill != 'a' && n > (1 << 20) + 1 {
                continue;
            }
            let pad: String = std::iter::repeat(fill).take(n).collect();
            for (head, tail) in [("\u{660}", "\u{6f0}"), ("\u{6f5}", "\u{665}"), ("\u{660}", "\u{661}"), ("\u{30fb}", "\u{3042}"), ("\u{30fb}", "\u{6f22}"), ("\u{30fb}", "z")] {
                v.push(format!("{head}{pad}{tail}"));
                v.push(format!("{tail}{pad}{head}"));
            }
        }
    }
    v
}

/// labels with exactly n ASCII words (n = 1..=300), one separator of them doubled / non-ASCII, plus contextual families
pub fn counted_word_labels() -> Vec<String> {
    let mut v = Vec::new();
    for n in 1..=300usize {
        for (special_at, sep) in [(n / 2, "  "), (0, "\u{a0}"), (n.saturating_sub(2), "   ")] {
            let mut s = String::new();
            for i in 0..n {
                s.push_str(&format!("w{i}"));
                if i + 1 < n {
                    s.push_str(if i == special_at { sep } else { " " });
                }
            }
            v.push(s);
        }
    }
    v
}

/// whole contextual families in one label
pub const PAYLOADS_FAMILIES: [&str; 6] = [
    "\u{3042}\u{30fb}\u{660}\u{661}\u{662}\u{663}\u{664}\u{665}\u{666}\u{667}\u{668}\u{669}",
    "\u{6f0}\u{6f1}\u{6f2}\u{6f3}\u{6f4}\u{6f5}\u{6f6}\u{6f7}\u{6f8}\u{6f9}\u{30ab}\u{30fb}",
    "\u{30fb}\u{30fb}\u{6f22}\u{660}\u{660}\u{669}\u{375}\u{3b1}l\u{b7}l\u{5d0}\u{5f3}\u{5d0}\u{5f4}",
    "\u{94d}\u{200d}\u{94d}\u{200c}\u{9cd}\u{200d}\u{626}\u{200c}\u{626}",
    "\u{660}\u{661}\u{662}\u{663}\u{664}\u{665}\u{666}\u{667}\u{668}\u{669}\u{6f0}",
    "l\u{b7}l\u{b7}l\u{b7}l\u{375}\u{3b1}\u{375}\u{3b2}",
];

/// run `f` over an arbitrary list of strings, partitioned over the threads
pub fn battery(run: &Run, section: &str, all: &[String], f: &(dyn Fn(&str, &mut Local) -> bool + Sync)) {
    run.par(section, true, |tid, n, l| {
        let mut buf = String::new();
        for (i, s) in all.iter().enumerate() {
            if i % n != tid {
                continue;
            }
            if i % 256 < n && run.stopped() {
                return;
            }
            l.cases += 1;
            let view = view_at(&mut buf, s, (i / n) % 16);
            if !f(view, l) {
                return;
            }
        }
    });
}

/// pairs of combining marks in the WRONG canonical order (ccc(m1) > ccc(m2) > 0), one mark per combining class, alone,
/// before and after a separately un-normalised sequence
pub fn misordered_mark_strings() -> Vec<String> {
    let d = db();
    let mut per_class: std::collections::BTreeMap<u8, char> = std::collections::BTreeMap::new();
    for cp in 0x300u32..0x1f000 {
        let k = cp as usize;
        if d.u16.listed[k] && d.u16.ccc[k] > 0 {
            if let Some(c) = char::from_u32(cp) {
                per_class.entry(d.u16.ccc[k]).or_insert(c);
            }
        }
    }
    let marks: Vec<(u8, char)> = per_class.into_iter().collect();
    let mut v = Vec::new();
    for (c1, m1) in &marks {
        for (c2, m2) in &marks {
            if c1 > c2 {
                v.push(format!("q{m1}{m2}"));
                v.push(format!("q{m1}{m2}e\u{301}"));
                v.push(format!("e\u{301}q{m1}{m2}x"));
                v.push(format!("\u{a0}q{m1}{m2}\u{212b}"));
            }
        }
    }
    v
}

/// multi-megabyte inputs followed by small ones (per-thread scratch buffers with a size policy)
pub fn multi_megabyte_strings(payloads: &[&str]) -> Vec<String> {
    let mut v = Vec::new();
    if let Some(p) = payloads.first() {
        for mb in [5usize, 17] {
            v.push(format!("{p}{}", "a".repeat(mb << 20)));
            v.push(format!("ab{p}c"));
            v.push(format!("{}{p}", "a".repeat(mb << 20)));
            v.push(format!("xy{p}"));
        }
    }
    v
}

/// one assigned combining mark per canonical combining class (16.0.0)
pub fn marks_per_class() -> Vec<char> {
    let d = db();
    let mut per_class: std::collections::BTreeMap<u8, char> = std::collections::BTreeMap::new();
    for cp in 0x300u32..0x1f000 {
        let k = cp as usize;
        if d.u16.listed[k] && d.u16.ccc[k] > 0 {
            if let Some(c) = char::from_u32(cp) {
                per_class.entry(d.u16.ccc[k]).or_insert(c);
            }
        }
    }
    per_class.into_values().collect()
}

/// (mark of each class) in front of / behind every character that has a canonical decomposition, every character with a
/// lowercase mapping, and every compatibility character that FreeformClass accepts: decompositions whose parts must be
/// re-ordered around a neighbouring mark, case mappings that expand next to a mark, compatibility capitals next to a mark
pub fn mark_neighbour_strings(which: u8) -> Vec<String> {
    let p = pools();
    let marks = marks_per_class();
    let mut v = Vec::new();
    let targets: Vec<char> = match which {
        0 => p.decomposable.clone(),
        1 => p.cased_all.clone(),
        _ => {
            let d = db();
            (0x80u32..0x30000)
                .filter(|cp| d.u16.dtag[*cp as usize] >= crate::ucd::DT_WIDE && matches!(d.ff(*cp), crate::ucd::Dpv::PValid | crate::ucd::Dpv::SpecPval))
                .filter_map(char::from_u32)
                .collect()
        }
    };
    for t in targets {
        for m in &marks {
            v.push(format!("{t}{m}"));
            if which == 0 {
                v.push(format!("a{m}{t}"));
            }
        }
    }
    v
}

/// one IdentifierClass-valid representative of every 256-code-point block (all of them in U+F000..U+FFFF, where few exist) in front of
/// and behind characters that the width / case / normalisation rules rewrite: shortcuts keyed on the block of an earlier character
pub fn block_representative_strings() -> Vec<String> {
    let d = db();
    let mut reps: Vec<char> = Vec::new();
    let mut block = u32::MAX;
    for cp in 0x80u32..0x30000 {
        if !matches!(d.id(cp), crate::ucd::Dpv::PValid) {
            continue;
        }
        if cp >> 8 != block || (0xf000..0x10000).contains(&cp) {
            block = cp >> 8;
            if let Some(c) = char::from_u32(cp) {
                reps.push(c);
            }
        }
    }
    let followers = ["\u{ff21}\u{ff42}", "\u{ff76}\u{ff9e}", "\u{ffe6}", "\u{ff01}", "A", "\u{130}", "\u{3a3}", "e\u{301}", "\u{1e9b}\u{323}", "\u{ac00}", "\u{3000}x", "\u{a0}x"];
    let mut v = Vec::new();
    for r in reps {
        for f in followers {
            v.push(format!("{r}{f}"));
            v.push(format!("{f}{r}"));
        }
    }
    v
}

/// n distinct characters of a pool (n around 8, 16, 32, 64) followed by one more new character and repeats of earlier ones, optionally
/// with a separator after every character: per-call memo / ring tables with broken replacement
pub fn distinct_runs_with_repeats(pool: &[char], sep: &str) -> Vec<String> {
    let mut v = Vec::new();
    if pool.len() < 10 {
        return v;
    }
    let step = if pool.len() < 400 { 1 } else { 11 };
    for start in (0..pool.len()).step_by(step) {
        for len in [7usize, 8, 9, 15, 16, 17, 18, 31, 32, 33, 34, 63, 64, 65] {
            if start + len + 2 > pool.len() {
                continue;
            }
            let at = |k: usize| format!("{}{sep}", pool[start + k]);
            let run: String = (0..len).map(at).collect();
            let next = at(len);
            let next2 = at(len + 1);
            for k in [0usize, 1, 2, len / 2, len - 3, len - 2, len - 1] {
                v.push(format!("{run}{next}{}", pool[start + k]));
                v.push(format!("{run}{}{next}", at(k)));
                v.push(format!("{run}{next}{next2}{}{}", at(k), pool[start + len]));
            }
            v.push(format!("{run}{next}{}", pool[start + len]));
            v.push(format!("{run}{next}{next2}{}", pool[start + len]));
            v.push(format!("{run}{next}{}{}", at(0), pool[start + 1]));
        }
    }
    v
}

/// pools interleaved character by character (a, b, c, a, b, c ...), each pool cycled
pub fn interleave(pools: &[&[char]], total: usize) -> Vec<char> {
    let mut v = Vec::new();
    let mut seen = std::collections::HashSet::new();
    let mut idx = vec![0usize; pools.len()];
    let mut k = 0usize;
    while v.len() < total && k < total * 4 {
        let pi = k % pools.len();
        k += 1;
        if idx[pi] < pools[pi].len() {
            let c = pools[pi][idx[pi]];
            idx[pi] += 1;
            if seen.insert(c) {
                v.push(c);
            }
        }
    }
    v
}

/// inputs of 16 MiB (index 0..4; quick tier) and beyond 64 and 128 MiB (index 4..12; thorough tier only: the library needs ~10 s per
/// pass over 64 MiB): a fixed point of the profile, the same with something to repair at the very end, and with something to repair at
/// the very start; `words`: made of space-separated words (nicknames, opaque strings) or not
pub fn huge_input(words: bool, index: usize) -> Option<String> {
    let sizes = [1usize << 24, 1 << 26, 1 << 27];
    let (size, shape) = (sizes.get(index / 4)?, index % 4);
    let unit = if words { "Foo Bar " } else { "foobar78" };
    let mut s = unit.repeat(size / 8);
    s.push_str(if words { "Foo Bar" } else { "foobar7" });
    match shape {
        0 => {}
        1 => s.push_str(if words { "  " } else { "\u{ff21}" }),
        2 => s.insert_str(0, if words { "\u{a0}e\u{301}" } else { "\u{ff42}e\u{301}" }),
        _ => s.push_str("e\u{301}"),
    }
    Some(s)
}

/// the huge inputs through `check`, one after the other on one thread
pub fn huge_section(run: &Run, words: bool, profs: &[Prof], check: &(dyn Fn(Prof, &str, &mut Local) -> Check + Sync)) {
    let count = run.pick(4usize, 12usize);
    run.par("inputs_of_16_64_128_mib", true, |tid, n, l| {
        for idx in 0..count {
            if idx % n != tid {
                continue;
            }
            let s = huge_input(words, idx).unwrap();
            for p in profs {
                l.cases += 1;
                if let Err(mut v) = check(*p, &s, l) {
                    v.case = json!({"op": "huge_input", "profile": p.name(), "words": words, "index": idx, "bytes": s.len(), "note": "pipe::huge_input(words, index)"});
                    v.expected = v.expected.chars().take(200).collect();
                    v.observed = v.observed.chars().take(200).collect();
                    run.violate(v);
                    return;
                }
            }
        }
    });
}

/// the input of a replay case: either stored in the file or one of the huge inputs
pub fn replay_input(case: &Value) -> String {
    if case.get("op").and_then(|o| o.as_str()) == Some("huge_input") {
        return huge_input(case["words"].as_bool().unwrap(), case["index"].as_u64().unwrap() as usize).expect("index");
    }
    if case.get("op").and_then(|o| o.as_str()) == Some("concurrent_distinct") {
        // the other 15 threads are not part of the file: the same input, single-threaded
        let unit = jget_str(case, "input_unit").expect("input_unit");
        let bytes = case["input_bytes"].as_u64().unwrap() as usize;
        return unit.repeat(bytes / unit.len());
    }
    jget_str(case, "input").expect("input")
}

/// steady-state concurrency with DISTINCT inputs: 16 threads start together; thread t calls the library over and over on its own inputs
/// (a thread-specific word that needs a repair, repeated to ~300 B, 5 KiB, 70 KiB and 300 KiB) while the others do the same with theirs.
/// Phase 1 (before the barrier, one thread after the other): every input through the property's full check; the answers of the
/// implementation are kept. Phase 2: `rounds` rounds of the same calls; every answer must equal the one from phase 1.
pub fn concurrent_distinct(run: &Run, profs: &[Prof], unit_for: &(dyn Fn(Prof, usize) -> String + Sync), check: &(dyn Fn(Prof, &str, &mut Local) -> Check + Sync)) {
    let rounds = run.pick(100usize, 2000usize);
    let nthreads = 16usize;
    let sizes = [300usize, 5_000, 70_000, 300_000];
    // phase 1
    let mut table: Vec<Vec<(Prof, Op, String, RRes)>> = Vec::new();
    let mut bad: Option<Violation> = None;
    let mut l0 = Local::scratch();
    'outer: for t in 0..nthreads {
        let mut mine = Vec::new();
        for p in profs {
            let unit = unit_for(*p, t);
            for sz in sizes {
                let s = unit.repeat(sz / unit.len() + 1);
                if let Err(v) = check(*p, &s, &mut l0) {
                    bad = Some(v);
                    break 'outer;
                }
                for op in [Op::Prepare, Op::Enforce] {
                    let want = match op {
                        Op::Prepare => imp_prepare(*p, &s),
                        Op::Enforce => imp_enforce(*p, &s),
                    };
                    mine.push((*p, op, s.clone(), want));
                }
            }
        }
        table.push(mine);
    }
    if let Some(v) = bad {
        run.violate(v);
        return;
    }
    let table = &table;
    let barrier = std::sync::Barrier::new(nthreads);
    let barrier = &barrier;
    run.par("concurrent_distinct_large_inputs", false, |tid, n, l| {
        // the engine starts n threads; the barrier needs exactly 16
        if n != nthreads {
            if tid == 0 {
                l.label("skipped:needs_16_threads");
            }
            return;
        }
        barrier.wait();
        for r in 0..rounds {
            if run.stopped() {
                return;
            }
            for (k, (p, op, s, want)) in table[tid].iter().enumerate() {
                // neighbours run the same size at about the same time, in a different order of profiles
                let _ = k;
                let got = guard(|| match op {
                    Op::Prepare => imp_prepare(*p, s),
                    Op::Enforce => imp_enforce(*p, s),
                });
                l.eval();
                l.cases += 1;
                let got = match got {
                    Ok(g) => g,
                    Err(pn) => Ok(format!("<<panic: {pn}>>")),
                };
                if got != *want {
                    let show = |r: &RRes| -> String { fmt_res(r).chars().take(160).collect() };
                    run.violate(Violation::new(
                        json!({"op": "concurrent_distinct", "profile": p.name(), "call": op_name(*op), "thread": tid, "round": r, "input_bytes": s.len(), "input_unit": jstr(&unit_for(*p, tid)),
                               "note": "16 threads, each repeating its own unit to ~300 B / 5 KiB / 70 KiB / 300 KiB and calling prepare and enforce on it in a loop"}),
                        format!("{} ... ({} bytes; the answer to the same call before the threads were started)", show(want), want.as_ref().map(|x| x.len()).unwrap_or(0)),
                        format!("{} ... ({} bytes)", show(&got), got.as_ref().map(|x| x.len()).unwrap_or(0)),
                    ));
                    return;
                }
            }
            if r == 0 {
                l.nt(hash64(&("concurrent_distinct", tid)));
            }
        }
    });
}

/// a thread-specific word with something to repair for each profile
pub fn concurrent_unit(p: Prof, t: usize) -> String {
    let c = (b'a' + t as u8) as char;
    let u = c.to_ascii_uppercase();
    match p {
        Prof::Nick => format!("{c}{c}{u}{c}{c}  "),
        Prof::Opaque => format!("{c}{u}{c}\u{a0}e\u{301}"),
        Prof::UserMapped => format!("{u}{c}\u{ff21}{c}e\u{301}"),
        Prof::UserPreserved => format!("{u}{c}\u{ff42}{c}e\u{301}"),
    }
}

/// N DISTINCT valid characters (N around 255..70000) followed by an offender of each kind (disallowed control, unassigned, ZWNJ without
/// its context, a compatibility character, nothing): per-label sets / tables of the characters seen so far that overflow silently
pub fn many_distinct_then_offender(free: bool) -> Vec<String> {
    let d = db();
    let valid: Vec<char> = (0x4e00u32..0x9fa6).chain(0xac00..0xd7a4).chain(0x3400..0x4db6).chain(0x20000..0x2a6d7)
        .filter(|cp| matches!(d.id(*cp), crate::ucd::Dpv::PValid))
        .filter_map(char::from_u32)
        .collect();
    let mut v = Vec::new();
    for n in [254usize, 255, 256, 257, 1023, 1024, 1025, 2046, 2047, 2048, 2049, 3000, 4095, 4096, 4097, 8192, 16384, 32768, 65535, 65536, 65537, 70_000] {
        if n > valid.len() {
            continue;
        }
        let run: String = valid[..n].iter().collect();
        for off in ["", "\u{7}", "\u{378}", "\u{200c}x", "\u{2126}", "\u{b7}", if free { "\u{a0}z" } else { "\u{ff21}" }, "e\u{301}"] {
            v.push(format!("{run}{off}"));
            v.push(format!("{run}{off}{}", valid[0]));
        }
    }
    v
}

/// a composing pair of two STARTERS (two-part vowel signs, Hangul jamo, halfwidth voiced marks) or base + mark placed so that its second
/// character starts exactly at / one byte around a multiple of 4096, 8192, 24576, 32768, 65536 bytes (and 1 MiB), behind an earlier
/// sequence that shrinks under normalisation: block-wise normalisation that cuts between the two
pub fn pairs_at_block_cuts(compat: bool) -> Vec<String> {
    let p = pools();
    let mut pairs: Vec<(char, char)> = p.starter_pairs.iter().copied().step_by(3).collect();
    pairs.extend([('e', '\u{301}'), ('\u{1100}', '\u{1161}'), ('\u{9c7}', '\u{9be}')]);
    if compat {
        pairs.extend([('\u{ff76}', '\u{ff9e}'), ('\u{ff8a}', '\u{ff9f}')]);
    }
    let mut cuts: Vec<usize> = Vec::new();
    for base in [4096usize, 8192, 12288, 16384, 24576, 32768, 49152, 65536, 1 << 20] {
        cuts.push(base);
    }
    let mut v = Vec::new();
    for (pi, (a, b)) in pairs.iter().enumerate() {
        for cut in &cuts {
            if *cut >= (1 << 20) && pi % 8 != 0 {
                continue;
            }
            for delta in [-1i64, 0, 1] {
                for lead in ["", "e\u{301}"] {
                    // the second character of the pair starts at byte offset cut + delta
                    let target = (*cut as i64 + delta) as usize;
                    let used = lead.len() + a.len_utf8();
                    if target < used {
                        continue;
                    }
                    v.push(format!("{lead}{}{a}{b}{}", "a".repeat(target - used), "a".repeat(100)));
                }
            }
        }
    }
    v
}

/// every payload behind 0..=40 ASCII letters, in front of two tails, handed over as a view that starts 0..=15 bytes after an allocation
/// boundary (all 16 pointer residues for every content offset): word-at-a-time fast paths whose head / first word depends on the ADDRESS
/// of the argument
pub fn pointer_offset_sweep(run: &Run, payloads: &[&str], f: &(dyn Fn(&str, &mut Local) -> Check + Sync)) {
    run.par("pointer_offset_sweep", true, |tid, n, l| {
        let mut buf = String::new();
        let mut idx = 0usize;
        for p in payloads {
            for k in 0..=40usize {
                for tail in ["", "abcdefghijklmnopqrstuvwxyz0123456789ABCDEFGHIJKLMNOPQRSTUVWXYZ"] {
                    idx += 1;
                    if idx % n != tid {
                        continue;
                    }
                    if run.stopped() {
                        return;
                    }
                    let s = format!("{}{p}{tail}", &"abcdefghijklmnopqrstuvwxyzabcdefghijklmnopqrstuvwxyz"[..k]);
                    for m in 0..16usize {
                        l.cases += 1;
                        let view = view_at(&mut buf, &s, m);
                        if let Err(mut v) = f(view, l) {
                            // reported as found: a copy of the text into a fresh String would be aligned again
                            v.case["argument_view"] = json!({"bytes_after_allocation_start": m, "note": "the argument is a &str view into a larger buffer: m filler bytes, the text, two more bytes"});
                            run.violate(v);
                            return;
                        }
                    }
                }
            }
        }
    });
}

/// the MIDDLE DOT pattern l·l with each 'l' replaced by every character whose lowercase NFKC form is "l" (capital, fullwidth, script and
/// mathematical L, roman numeral fifty ...), and U+0140 / U+013F (l / L with middle dot) in front of them: contextual patterns that only
/// come into being, or cease to hold, after case mapping / compatibility normalisation
pub fn respelled_middle_dot_strings() -> Vec<String> {
    let mut ls: Vec<char> = Vec::new();
    for cp in 0x41u32..0x1f200 {
        if let Some(c) = char::from_u32(cp) {
            let s = c.to_string();
            if ref_lower(&crate::ucd::nfkc_icu(&ref_lower(&s))) == "l" {
                ls.push(c);
            }
        }
    }
    let mut v = Vec::new();
    for x in &ls {
        for y in &ls {
            v.push(format!("{x}\u{b7}{y}"));
        }
        for dot in ['\u{140}', '\u{13f}'] {
            v.push(format!("{dot}{x}"));
            v.push(format!("a{dot}{x}b"));
            v.push(format!("{x}{dot}"));
        }
    }
    v
}
