//! C08 — enforced output has no universally forbidden code points and never drifts
use super::pipe::*;
use crate::engine::*;
use crate::model::*;
use crate::ucd::Dpv;
use precis_core::{FreeformClass, IdentifierClass, StringClass};
use proptest::prelude::*;
use serde_json::{json, Value};

pub const K2: &str = "K2-cherokee-lowercase-unassigned";

fn case_json(p: Prof, s: &str) -> Value {
    json!({"op": "enforce", "profile": p.name(), "input": jstr(s)})
}

pub fn check(run: &Run, p: Prof, s: &str, l: &mut Local) -> Check {
    l.eval();
    let got = match guard(|| imp_enforce(p, s)) {
        Ok(g) => g,
        Err(pn) => return Err(Violation::new(case_json(p, s), "Ok or a typed error", format!("panic: {pn}"))),
    };
    let Ok(e) = got else {
        l.label("rejected");
        return Ok(());
    };
    l.label("accepted");
    // no DISALLOWED / UNASSIGNED code point in the result (reference value and the class's own value)
    for c in e.chars() {
        let cp = c as u32;
        let refv = p.class_of(cp);
        let impv = Dpv::of(if p.is_username() { IdentifierClass::default().get_value_from_char(c) } else { FreeformClass::default().get_value_from_char(c) });
        if matches!(refv, Dpv::Disallowed | Dpv::Unassigned) || matches!(impv, Dpv::Disallowed | Dpv::Unassigned) {
            // K2: UsernameCaseMapped lowercases Cherokee letters (caseless in 6.3.0) to code points unassigned in 6.3.0
            if run.sig_active(K2) && p == Prof::UserMapped && refv == Dpv::Unassigned {
                let from_cherokee = s.chars().any(|i| (0x13a0..=0x13f4).contains(&(i as u32)) && i.to_lowercase().any(|x| x == c));
                if from_cherokee {
                    l.known(K2);
                    continue;
                }
            }
            return Err(Violation::new(
                case_json(p, s),
                "no code point of the result is DISALLOWED or UNASSIGNED in the profile's class",
                format!("Ok(\"{}\") contains U+{cp:04X} = {refv:?} (reference) / {impv:?} (class)", esc(&e)),
            ));
        }
    }
    // enforcing the result again never yields a different string
    l.eval();
    let again = match guard(|| imp_enforce(p, &e)) {
        Ok(g) => g,
        Err(pn) => return Err(Violation::new(case_json(p, &e), "Ok(same) or a typed error", format!("panic: {pn}"))),
    };
    if let Ok(e2) = &again {
        if *e2 != e {
            return Err(Violation::new(
                json!({"op": "enforce_twice", "profile": p.name(), "input": jstr(s)}),
                format!("enforce(enforce(s)) is Ok(\"{}\") or an error", esc(&e)),
                format!("Ok(\"{}\")", esc(e2)),
            ));
        }
    } else {
        l.label("second_enforce_rejects");
    }
    if e != s {
        l.nt(hash64(&(p, s)));
        l.label("changed");
        if l.want_sample() {
            l.sample(json!({"profile": p.name(), "input": esc(s), "enforced": esc(&e), "again": fmt_res(&again)}));
        }
    }
    Ok(())
}

fn report(run: &Run, p: Prof, s: &str) {
    let fails = |c: &[char]| {
        let t: String = c.iter().collect();
        let mut sc = Local::default();
        sc.frozen = true;
        check(run, p, &t, &mut sc).is_err()
    };
    let t: String = shrink_chars(s.chars().collect(), &fails).iter().collect();
    let mut sc = Local::default();
    sc.frozen = true;
    if let Err(v) = check(run, p, &t, &mut sc) {
        run.violate(v);
    } else if let Err(v) = check(run, p, s, &mut Local::scratch()) {
        // the shrunk copy (a freshly allocated String) passes: the failure depends on the argument as it was handed over (e.g. the
        // address of a &str view); reported as found
        run.violate(v);
    }
}

pub fn run(run: &Run) {
    run.set_rule(
        "Generator: (a) every Unicode scalar value c as the one-character string c and as a c a (interior), and preceded by a combining-friendly base \
         (a c U+0301), and behind 51 characters of padding, for all four profiles; (b) proptest valid-biased strings heavy in cased characters and composing sequences per profile. Oracle: \
         for every Ok(e): no code point of e is DISALLOWED/UNASSIGNED by my RFC 8264 recomputation over UCD 6.3.0 nor by the class's own \
         get_value_from_char; enforce(e) is Ok(e) or an error. Non-trivial: enforce accepted and changed the string; distinct = distinct (profile,input). Plus the deterministic long-input / call-order batteries of DESIGN.md 8.1 and 8.2 that apply to this property (extreme scale, mark neighbours, distinct runs with repeats, environment children, thread lifetime, concurrent distinct inputs; alignment sweeps 0..72 and around 128..65536 bytes, runs and exact counts, sandwiches and multi-megabyte inputs, exhaustive pair sets, plane/byte aliases, hash-colliding pairs back to back, owned arguments with spare capacity); each battery is a finite list enumerated completely and appears as its own section in 'sections'.",
    );
    run.assume("K2 (Cherokee letters U+13A0..U+13F4 are lowercased by UsernameCaseMapped to code points unassigned in Unicode 6.3.0) is a listed known finding, matched only for that profile, that source range and an UNASSIGNED target");
    let pad_a = crate::gens::pad(4, 5); // 17 x "abé"
    let pad_a = &pad_a;
    run.par("all_scalars_4_templates", true, |tid, n, l| {
        let mut cp = tid as u32;
        while cp < 0x110000 {
            if let Some(c) = char::from_u32(cp) {
                if cp % 4096 == 0 && run.stopped() {
                    return;
                }
                for t in 0..4 {
                    let s = match t {
                        0 => format!("{c}"),
                        1 => format!("a{c}a"),
                        2 => format!("a{c}\u{301}"),
                        _ => format!("{}{c}", pad_a),
                    };
                    for p in PROFS {
                        l.cases += 1;
                        if check(run, p, &s, l).is_err() {
                            report(run, p, &s);
                            return;
                        }
                    }
                }
            }
            cp += n as u32;
        }
    });
    battery(run, "misordered_marks", &misordered_mark_strings(), &|s, l| PROFS.iter().all(|p| match check(run, *p, s, l) {
        Ok(()) => true,
        Err(v) => {
            run.violate(v);
            false
        }
    }));
    run.par("nearest_valid_neighbour_pairs", true, |tid, n, l| {
        let d = crate::ucd::db();
        for (ci, p) in [Prof::UserPreserved, Prof::Opaque, Prof::Nick].iter().enumerate() {
            let valid = |cp: u32| matches!(if ci == 0 { d.id(cp) } else { d.ff(cp) }, Dpv::PValid | Dpv::SpecPval);
            let mut last_valid: Option<char> = None;
            let mut cp = 0u32;
            while cp < 0x110000 {
                if ((cp / 4096) as usize) % n != tid {
                    cp += 4096;
                    last_valid = None;
                    continue;
                }
                if last_valid.is_none() {
                    let mut b = cp;
                    while b > 0 {
                        b -= 1;
                        if valid(b) {
                            last_valid = char::from_u32(b);
                            break;
                        }
                    }
                }
                if let Some(c) = char::from_u32(cp) {
                    if valid(cp) {
                        last_valid = Some(c);
                    } else if let Some(v) = last_valid {
                        let s = format!("{v}{c}");
                        l.cases += 1;
                        if check(run, *p, &s, l).is_err() {
                            report(run, *p, &s);
                            return;
                        }
                    }
                }
                cp += 1;
            }
        }
    });
    {
        let mut all = mark_neighbour_strings(0);
        all.extend(mark_neighbour_strings(1));
        all.extend(mark_neighbour_strings(2));
        battery(run, "mark_neighbours", &all, &|s, l| PROFS.iter().all(|p| match check(run, *p, s, l) {
            Ok(()) => true,
            Err(v) => {
                run.violate(v);
                false
            }
        }));
    }
    {
        let mut all = many_distinct_then_offender(false);
        all.extend(pairs_at_block_cuts(false));
        battery(run, "many_distinct_and_pairs_at_block_cuts", &all, &|s, l| PROFS.iter().all(|p| match check(run, *p, s, l) {
            Ok(()) => true,
            Err(v) => {
                run.violate(v);
                false
            }
        }));
    }
    battery(run, "block_representatives", &block_representative_strings(), &|s, l| PROFS.iter().all(|p| match check(run, *p, s, l) {
        Ok(()) => true,
        Err(v) => {
            run.violate(v);
            false
        }
    }));
    composing_pairs(run, "all_composing_pairs", &|s, l| PROFS.iter().all(|p| match check(run, *p, s, l) {
        Ok(()) => true,
        Err(_) => {
            report(run, *p, s);
            false
        }
    }));
    // every character with a lowercase mapping followed by every composing tail character (case mapping before/after NFC)
    run.par("cased_times_composing_tail", true, |tid, n, l| {
        let pp = crate::gens::pools();
        for (i, a) in pp.cased_all.iter().enumerate() {
            if i % n != tid {
                continue;
            }
            if run.stopped() {
                return;
            }
            for b in pp.compose_tail.iter() {
                let s = format!("{a}{b}");
                for p in [Prof::UserMapped, Prof::Nick] {
                    l.cases += 1;
                    if check(run, p, &s, l).is_err() {
                        report(run, p, &s);
                        return;
                    }
                }
            }
        }
    });
    let pl: Vec<&str> = PAYLOADS_SPACE.iter().chain(PAYLOADS_FREE.iter()).chain(PAYLOADS_USER.iter()).copied().collect();
    stress(run, "alignment_and_runs", &pl, &|s, l| {
        for p in PROFS {
            if check(run, p, s, l).is_err() {
                report(run, p, s);
                return false;
            }
        }
        true
    });
    run.prop("random", run.pick(1_500_000, 60_000_000), || (0..4usize).prop_flat_map(|pi| (strings_for(PROFS[pi]), Just(pi))), |(s, pi), l| check(run, PROFS[*pi], s, l));
}

pub fn replay(run: &Run, case: &Value) -> Check {
    let p = Prof::from_name(case["profile"].as_str().unwrap()).expect("profile");
    let s = jget_str(case, "input").unwrap();
    check(run, p, &s, &mut Local::default())
}
