//! C12 — space rules map, trim and collapse spaces without touching anything else
use crate::engine::*;
use crate::gens::{self, pools};
use crate::model::*;
use crate::ucd::db;
use proptest::collection::vec;
use proptest::prelude::*;
use serde_json::{json, Value};

fn case_json(p: Prof, s: &str) -> Value {
    json!({"op": "additional_mapping_rule", "profile": p.name(), "input": jstr(s)})
}

/// the oracle for one (profile, string)
pub fn check(p: Prof, s: &str, l: &mut Local) -> Check {
    let d = db();
    let expected = match p {
        Prof::Nick => ref_space_nick(s),
        Prof::Opaque => ref_space_opaque(s),
        _ => unreachable!(),
    };
    l.eval();
    let got = match guard(|| imp_rule(p, RuleKind::Additional, s)) {
        Ok(g) => g,
        Err(pn) => return Err(Violation::new(case_json(p, s), format!("Ok(\"{}\")", esc(&expected)), format!("panic: {pn}"))),
    };
    if got != Ok(expected.clone()) {
        return Err(Violation::new(case_json(p, s), format!("Ok(\"{}\")", esc(&expected)), fmt_res(&got)));
    }
    // the same call with an owned argument (spare capacity) must give the same content
    l.eval();
    let owned = guard(|| imp_rule_owned(p, RuleKind::Additional, s)).unwrap_or_else(|pn| Ok(format!("panic: {pn}")));
    if owned != got {
        return Err(Violation::new(case_json(p, s), format!("owned argument gives the same result: {}", fmt_res(&got)), fmt_res(&owned)));
    }
    // idempotence
    l.eval();
    let again = match guard(|| imp_rule(p, RuleKind::Additional, &expected)) {
        Ok(g) => g,
        Err(pn) => return Err(Violation::new(case_json(p, &expected), "idempotent result", format!("panic: {pn}"))),
    };
    if again != Ok(expected.clone()) {
        return Err(Violation::new(case_json(p, &expected), format!("idempotent: Ok(\"{}\")", esc(&expected)), fmt_res(&again)));
    }
    // non-trivial: a space needed action and a multi-byte character precedes the last space
    if expected != s {
        l.label("changed");
        if let Some(last_sp) = s.char_indices().filter(|(_, c)| d.is_zs16(*c)).map(|(i, _)| i).last() {
            if s[..last_sp].chars().any(|c| c.len_utf8() > 1 && !d.is_zs16(c)) {
                l.label("multibyte_before_space");
                l.nt(hash64(&(p, s)));
                if l.want_sample() {
                    l.sample(json!({"profile": p.name(), "input": esc(s), "output": esc(&expected)}));
                }
            }
        }
    } else {
        l.label("unchanged");
    }
    Ok(())
}

const SIGMA2: [char; 8] = [' ', '\u{a0}', '\u{2003}', '\u{3000}', 'a', 'é', '€', '𝄞'];

fn shrink_and_report(run: &Run, p: Prof, s: &str) {
    let fails = |c: &[char]| {
        let t: String = c.iter().collect();
        let mut sc = Local::default();
        sc.frozen = true;
        check(p, &t, &mut sc).is_err()
    };
    let min = shrink_chars(s.chars().collect(), &fails);
    let t: String = min.iter().collect();
    let mut sc = Local::default();
    sc.frozen = true;
    if let Err(v) = check(p, &t, &mut sc) {
        run.violate(v);
    } else if let Err(v) = check(p, s, &mut Local::scratch()) {
        // the shrunk copy (a freshly allocated String) passes: the failure depends on the argument as it was handed over (e.g. the
        // address of a &str view); reported as found
        run.violate(v);
    }
}

pub fn run(run: &Run) {
    run.set_rule(
        "Generator: (a) all strings of length <= L over {U+0020,U+00A0,U+2003,U+3000,a,e-acute,euro,U+1D11E} (L=7 quick, 8 thorough), \
         (b) all 4-slot strings over {Zs,' ','a',euro} for each of the 17 Zs, (c) every Unicode scalar value c inside 6 templates (two of them behind 17 and 192 characters of multi-byte padding) \
         (is c treated as a space iff it is Zs in UnicodeData 16.0.0?), (d) proptest strings mixing all Zs with pool characters; \
         each through Rules::additional_mapping_rule of Nickname and OpaqueString. Oracle: map/split/join model over my own parse of \
         UnicodeData 16.0.0, plus idempotence. Non-trivial: the mapping changes the string and a multi-byte non-space character \
         stands before the last space; distinct = distinct (profile,input). Plus the deterministic long-input / call-order batteries of DESIGN.md 8.1 and 8.2 that apply to this property (extreme scale, mark neighbours, distinct runs with repeats, environment children, thread lifetime, concurrent distinct inputs; alignment sweeps 0..72 and around 128..65536 bytes, runs and exact counts, sandwiches and multi-megabyte inputs, exhaustive pair sets, plane/byte aliases, hash-colliding pairs back to back, owned arguments with spare capacity); each battery is a finite list enumerated completely and appears as its own section in 'sections'.",
    );
    run.assume("Zs membership is taken from /verif/data/ucd16/UnicodeData.txt (pinned copy, SHA256 checked)");
    let profs = [Prof::Nick, Prof::Opaque];
    let maxlen = run.pick(7usize, 8usize);

    // (a) exhaustive short strings
    run.par("enum_sigma2", true, |tid, n, l| {
        let mut idx = tid as u64;
        let mut total = 0u64;
        for len in 0..=maxlen {
            total += 8u64.pow(len as u32);
        }
        while idx < total {
            if idx % 4096 == tid as u64 % 4096 && run.stopped() {
                return;
            }
            // decode idx -> (len, digits)
            let mut rem = idx;
            let mut len = 0;
            loop {
                let c = 8u64.pow(len as u32);
                if rem < c {
                    break;
                }
                rem -= c;
                len += 1;
            }
            let mut s = String::new();
            for _ in 0..len {
                s.push(SIGMA2[(rem % 8) as usize]);
                rem /= 8;
            }
            l.cases += 1;
            for p in profs {
                if check(p, &s, l).is_err() {
                    shrink_and_report(run, p, &s);
                    return;
                }
            }
            idx += n as u64;
        }
    });

    // (b) 17 Zs x 4-slot template
    run.par("zs_templates", true, |tid, n, l| {
        let zs = &pools().zs;
        for (zi, z) in zs.iter().enumerate() {
            if zi % n != tid {
                continue;
            }
            let alpha = [*z, ' ', 'a', '€'];
            for code in 0..256usize {
                let s: String = (0..4).map(|k| alpha[(code >> (2 * k)) & 3]).collect();
                l.cases += 1;
                for p in profs {
                    if check(p, &s, l).is_err() {
                        shrink_and_report(run, p, &s);
                        return;
                    }
                }
            }
        }
    });

    // (c) every scalar value in 4 templates
    let pad17 = gens::pad(1, 5);
    let pad64 = gens::pad(5, 11);
    let (pad17, pad64) = (&pad17, &pad64);
    run.par("all_scalars_in_templates", true, |tid, n, l| {
        let mut cp = tid as u32;
        while cp < 0x110000 {
            if let Some(c) = char::from_u32(cp) {
                if cp % 8192 == 0 && run.stopped() {
                    return;
                }
                for t in 0..6 {
                    let s = match t {
                        0 => format!("a{c}b"),
                        1 => format!("{c}a"),
                        2 => format!("é{c}"),
                        3 => format!("𝄞{c} x"),
                        4 => format!("{}{c}b", pad17),
                        _ => format!("{}{c}", pad64),
                    };
                    l.cases += 1;
                    for p in profs {
                        if check(p, &s, l).is_err() {
                            shrink_and_report(run, p, &s);
                            return;
                        }
                    }
                }
            }
            cp += n as u32;
        }
    });

    // every scalar value behind ASCII prefixes whose length puts it on / next to 8, 16, 32 and 64-byte block boundaries
    run.par("all_scalars_long_prefix", true, |tid, n, l| {
        let pres: Vec<String> = [7usize, 8, 15, 16, 17, 31, 32, 33, 63, 64, 65].iter().map(|k| "a".repeat(*k)).collect();
        let mut cp = tid as u32;
        while cp < 0x110000 {
            if let Some(c) = char::from_u32(cp) {
                if cp % 8192 == 0 && run.stopped() {
                    return;
                }
                for (i, pre) in pres.iter().enumerate() {
                    let s = if i % 2 == 0 { format!("{pre}{c}") } else { format!("{pre}{c} z") };
                    l.cases += 1;
                    let p = profs[(cp as usize + i) % 2];
                    if check(p, &s, l).is_err() {
                        shrink_and_report(run, p, &s);
                        return;
                    }
                }
            }
            cp += n as u32;
        }
    });
    {
        let labels = super::pipe::counted_word_labels();
        super::pipe::battery(run, "counted_words", &labels, &|s, l| profs.iter().all(|p| match check(*p, s, l) {
            Ok(()) => true,
            Err(v) => {
                run.violate(v);
                false
            }
        }));
    }
    {
        // one thread, in order: the point is what a call leaves behind for the next one
        let big = super::pipe::multi_megabyte_strings(&super::pipe::PAYLOADS_SPACE);
        run.par("multi_megabyte_then_small", true, |tid, _n, l| {
            if tid != 0 {
                return;
            }
            for s in &big {
                for p in profs {
                    l.cases += 1;
                    if let Err(mut v) = check(p, s, l) {
                        v.case = json!({"op": "huge_input_sequence", "profile": p.name(), "failing_input_bytes": s.len(), "note": "multi_megabyte_strings() in order on one thread"});
                        v.expected.truncate(200);
                        v.observed.truncate(200);
                        run.violate(v);
                        return;
                    }
                }
            }
        });
    }
    super::pipe::collisions(run, "fingerprint_collisions", &|s, l| profs.iter().all(|p| match check(*p, s, l) {
        Ok(()) => true,
        Err(v) => {
            run.violate(v);
            false
        }
    }));
    super::pipe::pointer_offset_sweep(run, &["  ", " ", "\u{a0}", "\u{3000}", " \u{a0}", "\u{2003} ", "\u{1680}", "x  y", "   ", "\u{a0}\u{a0}"], &|s, l| {
        for p in profs {
            check(p, s, l)?;
        }
        Ok(())
    });
    super::pipe::stress(run, "alignment_and_runs", &super::pipe::PAYLOADS_SPACE, &|s, l| {
        for p in profs {
            if check(p, s, l).is_err() {
                shrink_and_report(run, p, s);
                return false;
            }
        }
        true
    });
    // (d) random
    let mk = || {
      let ch = prop_oneof![
        30 => gens::pick(&pools().zs),
        15 => Just(' '),
        40 => gens::pick(&pools().general),
        15 => gens::gchar(),
    ];
      (prop_oneof![5 => gens::padded(prop_oneof![9 => vec(ch.clone(), 0..=24), 1 => vec(ch, 0..=200)].prop_map(gens::s_of).boxed()), 1 => gens::ascii_words()], 0..2usize)
    };
    run.prop("random", run.pick(3_000_000, 100_000_000), mk, |(s, pi), l| check(profs[*pi], s, l));
    run.prop("random_ascii_text", run.pick(1_500_000, 40_000_000), || (gens::ascii_text(), 0..2usize), |(s, pi), l| check(profs[*pi], s, l));
    // all strings of length <= 9 over {space, '!' (U+0020 + 1), U+001F, 'a'}, bare and behind / in front of ASCII pads of 13..40 bytes
    super::pipe::enum_strings(run, "enum_space_neighbours", &[' ', '!', '\u{1f}', 'a'], run.pick(9, 10), &|s, l| {
        for p in profs {
            if check(p, s, l).is_err() {
                shrink_and_report(run, p, s);
                return false;
            }
        }
        true
    });
    {
        let mut all = Vec::new();
        for core_len in 0..=6u32 {
            for idx in 0..4u64.pow(core_len) {
                let mut rem = idx;
                let mut core = String::new();
                for _ in 0..core_len {
                    core.push([' ', '!', '\u{3000}', 'a'][(rem % 4) as usize]);
                    rem /= 4;
                }
                for (a, b) in [("Hello, world", " ok."), ("abcdefghijklmnop ", "q"), (" abcdefghijklmnopqrstuvwxyz0123456789", "!!"), ("ab  ", " cdefghijklmnopqrstuvwxyz0123456789")] {
                    all.push(format!("{a}{core}{b}"));
                }
            }
        }
        // long runs of spaces in front of a second repair further on
        for n in (1..=40usize).chain([63, 64, 65, 127, 128, 129, 255, 256, 257, 1000, 4096]) {
            for lead in [0usize, 1, 9, 16] {
                for tail in ["cd  efghijklmnopqrstuvwxyz0123456789", "cd \u{3000}efghijklmnop", "c d e  f", "cdefghijklmnopqrstuvwxyz  0123456789 !! x", "cd"] {
                    all.push(format!("{}ab{}{tail}", " ".repeat(lead), " ".repeat(n)));
                    all.push(format!("{}ab{}{tail} ", " ".repeat(lead), " ".repeat(n)));
                }
            }
        }
        super::pipe::battery(run, "space_runs_then_second_repair", &all, &|s, l| {
            for p in profs {
                if check(p, s, l).is_err() {
                    shrink_and_report(run, p, s);
                    return false;
                }
            }
            true
        });
    }
    // short enumerated strings behind / in front of long pads
    let pads: Vec<(String, String)> = vec![(gens::pad(1, 5), String::new()), (gens::pad(3, 8), "z".into()), (String::new(), gens::pad(2, 9)), (gens::pad(5, 13), gens::pad(0, 3))];
    let plen = run.pick(4usize, 5usize);
    let pads = &pads;
    run.par("enum_sigma2_long_pads", true, |tid, n, l| {
        let mut total = 0u64;
        for len in 0..=plen {
            total += 8u64.pow(len as u32);
        }
        let mut idx = tid as u64;
        while idx < total {
            if idx % 4096 == tid as u64 % 4096 && run.stopped() {
                return;
            }
            let mut rem = idx;
            let mut len = 0;
            loop {
                let c = 8u64.pow(len as u32);
                if rem < c {
                    break;
                }
                rem -= c;
                len += 1;
            }
            let mut core = String::new();
            for _ in 0..len {
                core.push(SIGMA2[(rem % 8) as usize]);
                rem /= 8;
            }
            for (a, b) in pads.iter() {
                let s = format!("{a}{core}{b}");
                l.cases += 1;
                for p in profs {
                    if check(p, &s, l).is_err() {
                        shrink_and_report(run, p, &s);
                        return;
                    }
                }
            }
            idx += n as u64;
        }
    });
}

pub fn replay(_run: &Run, case: &Value) -> Check {
    let p = Prof::from_name(case.get("profile").and_then(|p| p.as_str()).unwrap_or("")).expect("profile");
    if case.get("op").and_then(|o| o.as_str()) == Some("huge_input_sequence") {
        let mut l = Local::default();
        for s in super::pipe::multi_megabyte_strings(&super::pipe::PAYLOADS_SPACE) {
            check(p, &s, &mut l)?;
        }
        return Ok(());
    }
    let s = jget_str(case, "input").expect("input");
    let mut l = Local::default();
    check(p, &s, &mut l)
}
