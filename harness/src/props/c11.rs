//! C11 — width mapping replaces exactly the wide/narrow compatibility characters
use crate::engine::*;
use crate::gens::{self, pools};
use crate::model::*;
use crate::ucd::{self, db};
use proptest::collection::vec;
use proptest::prelude::*;
use serde_json::{json, Value};

fn case_json(p: Prof, s: &str) -> Value {
    json!({"op": "width_mapping_rule", "profile": p.name(), "input": jstr(s)})
}

pub fn check(p: Prof, s: &str, l: &mut Local) -> Check {
    let d = db();
    let expected = ref_width(s);
    l.eval();
    let got = match guard(|| imp_rule(p, RuleKind::Width, s)) {
        Ok(g) => g,
        Err(pn) => return Err(Violation::new(case_json(p, s), format!("Ok(\"{}\")", esc(&expected)), format!("panic: {pn}"))),
    };
    if got != Ok(expected.clone()) {
        return Err(Violation::new(case_json(p, s), format!("Ok(\"{}\")", esc(&expected)), fmt_res(&got)));
    }
    // the same call with an owned argument (spare capacity) must give the same content
    l.eval();
    let owned = guard(|| imp_rule_owned(p, RuleKind::Width, s)).unwrap_or_else(|pn| Ok(format!("panic: {pn}")));
    if owned != got {
        return Err(Violation::new(case_json(p, s), format!("owned argument gives the same result: {}", fmt_res(&got)), fmt_res(&owned)));
    }
    if expected != s {
        // applying it twice equals applying it once
        l.eval();
        let again = guard(|| imp_rule(p, RuleKind::Width, &expected)).unwrap_or_else(|pn| Err(RErr::Invalid).map_err(|e| { let _ = pn; e }));
        if again != Ok(ref_width(&expected)) || again != Ok(expected.clone()) {
            return Err(Violation::new(case_json(p, &expected), format!("idempotent: Ok(\"{}\")", esc(&expected)), fmt_res(&again)));
        }
        l.label("changed");
    }
    let mapped_not_first = s.char_indices().any(|(i, c)| i > 0 && d.wn16.contains_key(&(c as u32)));
    let compat_survivor = s.chars().any(|c| d.u16.dtag[c as usize] == ucd::DT_COMPAT);
    if mapped_not_first {
        l.label("mapped_after_offset_0");
    }
    if compat_survivor {
        l.label("other_compat_char_must_survive");
    }
    if mapped_not_first || compat_survivor {
        l.nt(hash64(&(p, s)));
        if l.want_sample() {
            l.sample(json!({"profile": p.name(), "input": esc(s), "output": esc(&expected)}));
        }
    }
    Ok(())
}

fn report(run: &Run, p: Prof, s: &str) {
    let fails = |c: &[char]| {
        let t: String = c.iter().collect();
        let mut sc = Local::default();
        sc.frozen = true;
        check(p, &t, &mut sc).is_err()
    };
    let t: String = shrink_chars(s.chars().collect(), &fails).iter().collect();
    let mut sc = Local::default();
    sc.frozen = true;
    if let Err(v) = check(p, &t, &mut sc) {
        run.violate(v);
    } else if let Err(v) = check(p, s, &mut Local::scratch()) {
        // the shrunk copy (a freshly allocated String) passes: the failure depends on the argument as it was handed over (e.g. the
        // address of a &str view); reported as found
        run.violate(v);
    }
}

pub fn run(run: &Run) {
    run.set_rule(
        "Generator: (a) every Unicode scalar value c in 10 contexts (two behind 17 and 93 characters of multi-byte padding): alone, after an unmapped prefix of 1,2,3,4 UTF-8 bytes (a, e-acute, \
         euro, U+1D11E), before and after a mapped character (U+FF21, U+FF76) and between two, (b) proptest strings mixing all 226 \
         width-mapped characters, other compatibility characters and general characters; through Rules::width_mapping_rule of both \
         username profiles. Oracle: per-character map built from my own parse of UnicodeData 16.0.0 (<wide>/<narrow> -> single \
         target, everything else identity) + idempotence. Non-trivial: a mapped character stands after byte offset 0, or a \
         compatibility character with another tag (<compat>, <super>, <font>, ...) must survive; distinct = distinct (profile,input). Plus the deterministic long-input / call-order batteries of DESIGN.md 8.1 and 8.2 that apply to this property (extreme scale, mark neighbours, distinct runs with repeats, environment children, thread lifetime, concurrent distinct inputs; alignment sweeps 0..72 and around 128..65536 bytes, runs and exact counts, sandwiches and multi-megabyte inputs, exhaustive pair sets, plane/byte aliases, hash-colliding pairs back to back, owned arguments with spare capacity); each battery is a finite list enumerated completely and appears as its own section in 'sections'.",
    );
    run.assume("wide/narrow mappings taken from /verif/data/ucd16/UnicodeData.txt (pinned copy)");
    let profs = [Prof::UserMapped, Prof::UserPreserved];
    let pad_a = gens::pad(1, 5);
    let pad_b = gens::pad(5, 7);
    let (pad_a, pad_b) = (&pad_a, &pad_b);
    run.par("all_scalars_in_10_contexts", true, |tid, n, l| {
        let mut cp = tid as u32;
        while cp < 0x110000 {
            if let Some(c) = char::from_u32(cp) {
                if cp % 8192 == 0 && run.stopped() {
                    return;
                }
                for t in 0..10 {
                    let s = match t {
                        8 => format!("{}{c}", pad_a),
                        9 => format!("{}{c}\u{ff21}", pad_b),
                        0 => format!("{c}"),
                        1 => format!("a{c}"),
                        2 => format!("é{c}"),
                        3 => format!("€{c}b"),
                        4 => format!("𝄞{c}"),
                        5 => format!("\u{ff21}{c}"),
                        6 => format!("{c}\u{ff76}"),
                        _ => format!("\u{ff76}{c}\u{ff21}"),
                    };
                    l.cases += 1;
                    for p in profs {
                        if check(p, &s, l).is_err() {
                            report(run, p, &s);
                            return;
                        }
                    }
                }
            }
            cp += n as u32;
        }
    });
    // every scalar value behind ASCII prefixes whose length puts it on / next to 8, 16, 32 and 64-byte block boundaries
    run.par("all_scalars_long_prefix", true, |tid, n, l| {
        let pres: Vec<String> = [7usize, 8, 15, 16, 17, 31, 32, 33, 63, 64, 65].iter().map(|k| "a".repeat(*k)).collect();
        let mut cp = tid as u32;
        while cp < 0x110000 {
            if let Some(c) = char::from_u32(cp) {
                if cp % 8192 == 0 && run.stopped() {
                    return;
                }
                for (i, pre) in pres.iter().enumerate() {
                    let s = if i % 2 == 0 { format!("{pre}{c}") } else { format!("{pre}{c} z") };
                    l.cases += 1;
                    let p = profs[(cp as usize + i) % 2];
                    if check(p, &s, l).is_err() {
                        report(run, p, &s);
                        return;
                    }
                }
            }
            cp += n as u32;
        }
    });
    // all ordered triples of the 240 code points of the Halfwidth and Fullwidth Forms block U+FF00..U+FFEF (mapped, unmapped and unassigned
    // members alike) through the rule: a lookup that remembers where the previous lookup ended
    run.par("all_triples_of_the_fullwidth_block", true, |tid, n, l| {
        let block: Vec<char> = (0xff00u32..0xfff0).filter_map(char::from_u32).collect();
        let mut s = String::with_capacity(12);
        for (i, a) in block.iter().enumerate() {
            if i % n != tid {
                continue;
            }
            if run.stopped() {
                return;
            }
            for b in block.iter() {
                for c in block.iter() {
                    s.clear();
                    s.push(*a);
                    s.push(*b);
                    s.push(*c);
                    l.cases += 1;
                    l.eval();
                    let want: String = ref_width(&s);
                    let got = imp_rule(profs[i % 2], RuleKind::Width, &s);
                    if got != Ok(want) {
                        // through the full check for the report
                        if check(profs[i % 2], &s, l).is_err() {
                            report(run, profs[i % 2], &s);
                            return;
                        }
                    }
                }
            }
        }
    });
    run.par("all_pairs_of_width_mapped", true, |tid, n, l| {
        let w = &pools().width;
        for (i, a) in w.iter().enumerate() {
            if i % n != tid {
                continue;
            }
            for b in w.iter() {
                for s in [format!("{a}{b}"), format!("\u{e9}{a}x{b}")] {
                    l.cases += 1;
                    let p = profs[i % 2];
                    if check(p, &s, l).is_err() {
                        report(run, p, &s);
                        return;
                    }
                }
            }
        }
    });
    {
        // one thread, in order: the point is what a call leaves behind for the next one
        let big = super::pipe::multi_megabyte_strings(&super::pipe::PAYLOADS_USER);
        run.par("multi_megabyte_then_small", true, |tid, _n, l| {
            if tid != 0 {
                return;
            }
            for s in &big {
                for p in profs {
                    l.cases += 1;
                    if let Err(mut v) = check(p, s, l) {
                        v.case = json!({"op": "huge_input_sequence", "profile": p.name(), "failing_input_bytes": s.len(), "note": "multi_megabyte_strings() in order on one thread"});
                        v.expected.truncate(200);
                        v.observed.truncate(200);
                        run.violate(v);
                        return;
                    }
                }
            }
        });
    }
    {
        let mut all = super::pipe::distinct_runs_with_repeats(&pools().width, "");
        all.extend(super::pipe::distinct_runs_with_repeats(&pools().width, "x"));
        super::pipe::battery(run, "distinct_width_runs_with_repeats", &all, &|s, l| profs.iter().all(|p| match check(*p, s, l) {
            Ok(()) => true,
            Err(v) => {
                run.violate(v);
                false
            }
        }));
    }
    super::pipe::battery(run, "block_representatives", &super::pipe::block_representative_strings(), &|s, l| profs.iter().all(|p| match check(*p, s, l) {
        Ok(()) => true,
        Err(v) => {
            run.violate(v);
            false
        }
    }));
    super::pipe::collisions(run, "fingerprint_collisions", &|s, l| profs.iter().all(|p| match check(*p, s, l) {
        Ok(()) => true,
        Err(v) => {
            run.violate(v);
            false
        }
    }));
    super::pipe::pointer_offset_sweep(run, &["\u{ff21}", "\u{ff41}\u{ff42}", "\u{ff76}\u{ff9e}", "\u{3000}", "\u{ffe6}", "\u{ff01}", "\u{ffbe}", "\u{e9}\u{ff21}"], &|s, l| {
        for p in profs {
            check(p, s, l)?;
        }
        Ok(())
    });
    super::pipe::stress(run, "alignment_and_runs", &super::pipe::PAYLOADS_USER, &|s, l| {
        for p in profs {
            if check(p, s, l).is_err() {
                report(run, p, s);
                return false;
            }
        }
        true
    });
    let mk = || {
        let ch = prop_oneof![35 => gens::pick(&pools().width), 15 => gens::pick(&pools().compat_ff), 25 => gens::pick(&pools().simple),
            15 => gens::pick(&pools().general), 10 => gens::gchar()];
        (gens::padded(prop_oneof![9 => vec(ch.clone(), 0..=12), 1 => vec(ch, 0..=120)].prop_map(gens::s_of).boxed()), 0..2usize)
    };
    run.prop("random", run.pick(2_000_000, 60_000_000), mk, |(s, pi), l| check(profs[*pi], s, l));
}

pub fn replay(_run: &Run, case: &Value) -> Check {
    let p = Prof::from_name(case.get("profile").and_then(|p| p.as_str()).unwrap_or("")).expect("profile");
    if case.get("op").and_then(|o| o.as_str()) == Some("huge_input_sequence") {
        let mut l = Local::default();
        for s in super::pipe::multi_megabyte_strings(&super::pipe::PAYLOADS_USER) {
            check(p, &s, &mut l)?;
        }
        return Ok(());
    }
    let s = jget_str(case, "input").expect("input");
    check(p, &s, &mut Local::default())
}
