//! C05 — OpaqueString applies RFC 8265 section 4.2 exactly
use super::pipe::*;
use crate::engine::*;
use crate::model::*;
use crate::ucd;
use serde_json::{json, Value};

pub fn check(run: &Run, s: &str, l: &mut Local) -> Check {
    let p = Prof::Opaque;
    let prep = check_pipe(run, p, Op::Prepare, s, l)?;
    let enf = check_pipe(run, p, Op::Enforce, s, l)?;
    if let Err(e) = &prep.got {
        if enf.got != Err(e.clone()) {
            return Err(Violation::new(case_json(p, Op::Enforce, s), format!("the error of prepare: Err({e:?})"), fmt_res(&enf.got)));
        }
        l.label("rejected");
        return Ok(());
    }
    if prep.got.as_deref() != Ok(s) {
        return Err(Violation::new(case_json(p, Op::Prepare, s), "prepare returns the input unchanged", fmt_res(&prep.got)));
    }
    l.label("accepted");
    if let Ok(e) = &enf.got {
        if !enf.excused {
            // metamorphic side checks
            if e.chars().any(is_non_ascii_zs) {
                return Err(Violation::new(case_json(p, Op::Enforce, s), "no non-ASCII space in the result", fmt_res(&enf.got)));
            }
            if ucd::nfc_icu(e) != *e && with_alt_norm(|| nfc(e)) != *e {
                return Err(Violation::new(case_json(p, Op::Enforce, s), "result is in NFC", fmt_res(&enf.got)));
            }
            if !s.chars().any(is_non_ascii_zs) && ucd::nfc_icu(s) == s && e != s {
                return Err(Violation::new(case_json(p, Op::Enforce, s), "input without non-ASCII spaces and already NFC is returned byte for byte", fmt_res(&enf.got)));
            }
        }
    }
    let sp_not_first = s.char_indices().any(|(i, c)| i > 0 && is_non_ascii_zs(c));
    if sp_not_first {
        l.label("non_ascii_space_after_offset_0");
    }
    if enf.trace.norm_changed {
        l.label("nfc_changes");
    }
    if sp_not_first || enf.trace.norm_changed {
        l.nt(hash64(&s));
        if l.want_sample() {
            l.sample(json!({"input": esc(s), "enforce": fmt_res(&enf.got)}));
        }
    }
    Ok(())
}

pub fn run(run: &Run) {
    run.set_rule(
        "Generator: proptest strings for FreeformClass: 45% valid-biased (valid members + 0-2 injected: any of the 17 Zs, characters whose NFKC contains \
         a space, compatibility characters, composing sequences, cased, contextual), 40% dense space/compat/composing mixes (every Zs in first, interior, \
         last, adjacent positions), 15% arbitrary pool strings; every Zs x {first, interior, last} templates; fixed corner cases; ALL strings of length <= 4 (quick) / 5 (thorough) over a 28-character \
         alphabet (spaces of 1-3 bytes, NFKC-space producers, composing pairs, compatibility characters, jamo, controls). Oracle: model (non-empty \
         -> FreeformClass reference scan -> Zs16 minus U+0020 to U+0020 -> ICU4X NFC -> non-empty), prepare returns the input itself; metamorphic: no \
         non-ASCII Zs in the result, result is NFC, inputs without non-ASCII Zs and already NFC come back byte for byte. Non-trivial: accepted and (a \
         non-ASCII space after byte offset 0, or NFC changes the string); distinct = distinct input. Plus the deterministic long-input / call-order batteries of DESIGN.md 8.1 and 8.2 that apply to this property (extreme scale, mark neighbours, distinct runs with repeats, environment children, thread lifetime, concurrent distinct inputs; alignment sweeps 0..72 and around 128..65536 bytes, runs and exact counts, sandwiches and multi-megabyte inputs, exhaustive pair sets, plane/byte aliases, hash-colliding pairs back to back, owned arguments with spare capacity); each battery is a finite list enumerated completely and appears as its own section in 'sections'.",
    );
    run.par("zs_placements", true, |tid, n, l| {
        for (i, z) in crate::gens::pools().zs.iter().enumerate() {
            if i % n != tid {
                continue;
            }
            for s in [format!("{z}"), format!("{z}a"), format!("a{z}"), format!("a{z}b"), format!("é{z}{z}€"), format!("𝄞{z} {z}"), format!("A\u{30a}{z}\u{212b}"), format!("{z}\u{fb01}{z}\u{2163}")] {
                l.cases += 1;
                if check(run, &s, l).is_err() {
                    shrink_report(run, Prof::Opaque, Op::Enforce, &s);
                    return;
                }
            }
        }
    });
    run.par("corner_cases", true, |tid, _n, l| {
        if tid != 0 {
            return;
        }
        for s in ["", " ", "a", "Secret", "\u{fb01}", "\u{2163}", "\u{212b}", "A\u{30a}", "\u{1e0b}\u{323}", "\u{ff21}", "\u{3000}", "\u{1680}x", "x\u{205f}", "\u{a8}", "\u{200d}", "\u{0}", "\u{e000}", "\u{378}"] {
            l.cases += 1;
            if check(run, s, l).is_err() {
                shrink_report(run, Prof::Opaque, Op::Enforce, s);
                shrink_report(run, Prof::Opaque, Op::Prepare, s);
                return;
            }
        }
    });
    enum_strings(run, "enum_alpha_free", &ALPHA_FREE, run.pick(4u32, 5u32), &|s, l| {
        if check(run, s, l).is_err() {
            shrink_report(run, Prof::Opaque, Op::Enforce, s);
            shrink_report(run, Prof::Opaque, Op::Prepare, s);
            return false;
        }
        true
    });
    enum_strings_padded(run, "enum_alpha_free_long_pads", &ALPHA_FREE, run.pick(3u32, 4u32), &|s, l| {
        if check(run, s, l).is_err() {
            shrink_report(run, Prof::Opaque, Op::Enforce, s);
            return false;
        }
        true
    });
    composing_pairs(run, "all_composing_pairs", &|s, l| match check(run, s, l) {
        Ok(()) => true,
        Err(_) => {
            shrink_report(run, Prof::Opaque, Op::Enforce, s);
            false
        }
    });
    {
        let mut labels: Vec<String> = zwnj_run_labels().into_iter().map(|s| format!("pw {s} end")).collect();
        labels.extend(counted_word_labels());
        labels.extend(PAYLOADS_FAMILIES.iter().map(|s| s.to_string()));
        battery(run, "zwnj_runs_and_counted_words", &labels, &|s, l| match check(run, s, l) {
            Ok(()) => true,
            Err(v) => {
                run.violate(v);
                false
            }
        });
    }
    battery(run, "misordered_marks", &misordered_mark_strings(), &|s, l| match check(run, s, l) {
        Ok(()) => true,
        Err(v) => {
            run.violate(v);
            false
        }
    });
    {
        let mut all = many_distinct_then_offender(true);
        all.extend(pairs_at_block_cuts(false));
        battery(run, "many_distinct_and_pairs_at_block_cuts", &all, &|s, l| match check(run, s, l) {
            Ok(()) => true,
            Err(v) => {
                run.violate(v);
                false
            }
        });
    }
    battery(run, "mark_neighbours", &mark_neighbour_strings(0), &|s, l| match check(run, s, l) {
        Ok(()) => true,
        Err(v) => {
            run.violate(v);
            false
        }
    });
    huge_section(run, true, &[Prof::Opaque], &|_p, s, l| check(run, s, l));
    concurrent_distinct(run, &[Prof::Opaque], &concurrent_unit, &|_p, s, l| check(run, s, l));
    pointer_offset_sweep(run, &["\u{a0}", "\u{3000}", "  ", " \u{a0}", "e\u{301}", "\u{212b}", "\u{fb01}", "A", "\u{2003} ", "\u{9c7}\u{9be}"], &|s, l| check(run, s, l));
    battery(run, "respelled_middle_dot", &respelled_middle_dot_strings(), &|s, l| match check(run, s, l) {
        Ok(()) => true,
        Err(v) => {
            run.violate(v);
            false
        }
    });
    collisions(run, "fingerprint_collisions", &|s, l| match check(run, s, l) {
        Ok(()) => true,
        Err(v) => {
            run.violate(v);
            false
        }
    });
    let pl: Vec<&str> = PAYLOADS_SPACE.iter().chain(PAYLOADS_FREE.iter()).copied().collect();
    stress(run, "alignment_and_runs", &pl, &|s, l| {
        if check(run, s, l).is_err() {
            shrink_report(run, Prof::Opaque, Op::Enforce, s);
            return false;
        }
        true
    });
    run.prop("random", run.pick(2_000_000, 60_000_000), freeform_strings, |s, l| check(run, s, l));
}

pub fn replay(run: &Run, case: &Value) -> Check {
    let s = super::pipe::replay_input(case);
    check(run, &s, &mut Local::default())
}
