//! C02 — a string class accepts a label iff every code point is valid in its context
use crate::engine::*;
use crate::gens::{self, pools};
use crate::model::*;
use crate::ucd::Dpv;
use precis_core::{DerivedPropertyValue, FreeformClass, IdentifierClass, StringClass};
use proptest::collection::vec;
use proptest::prelude::*;
use serde_json::{json, Value};

/// user-supplied class: a generated assignment of derived-property values to characters
#[derive(Clone, Debug, PartialEq, Eq, Hash)]
pub struct UserClass {
    pub map: Vec<(char, Dpv)>,
    pub default: Dpv,
    /// characters outside the map: 0 = the default value; 1 / 2 = ask IdentifierClass / FreeformClass (a class that refines a standard one:
    /// the library is re-entered from inside its own call)
    pub delegate: u8,
}
impl StringClass for UserClass {
    fn get_value_from_char(&self, c: char) -> DerivedPropertyValue {
        match (self.map.iter().find(|(k, _)| *k == c), self.delegate) {
            (Some((_, v)), _) => v.to_impl(),
            (None, 1) => IdentifierClass::default().get_value_from_char(c),
            (None, 2) => FreeformClass::default().get_value_from_char(c),
            (None, _) => self.default.to_impl(),
        }
    }
    fn get_value_from_codepoint(&self, cp: u32) -> DerivedPropertyValue {
        match char::from_u32(cp) {
            Some(c) => self.get_value_from_char(c),
            None => DerivedPropertyValue::Disallowed,
        }
    }
}

#[derive(Clone, Debug, PartialEq, Eq, Hash)]
pub enum Class {
    Id,
    Ff,
    User(UserClass),
}
impl Class {
    fn json(&self) -> Value {
        match self {
            Class::Id => json!("IdentifierClass"),
            Class::Ff => json!("FreeformClass"),
            Class::User(u) => json!({"default": u.default as u8, "delegate": u.delegate, "map": u.map.iter().map(|(c, v)| json!([*c as u32, *v as u8])).collect::<Vec<_>>(),
                "reading": "values: 0 PValid 1 SpecClassPval 2 SpecClassDis 3 ContextJ 4 ContextO 5 Disallowed 6 Unassigned"}),
        }
    }
    fn from_json(v: &Value) -> Class {
        match v.as_str() {
            Some("IdentifierClass") => Class::Id,
            Some("FreeformClass") => Class::Ff,
            _ => Class::User(UserClass {
                default: Dpv::from_u8(v["default"].as_u64().unwrap() as u8),
                delegate: v["delegate"].as_u64().unwrap_or(0) as u8,
                map: v["map"].as_array().unwrap().iter().map(|e| (char::from_u32(e[0].as_u64().unwrap() as u32).unwrap(), Dpv::from_u8(e[1].as_u64().unwrap() as u8))).collect(),
            }),
        }
    }
}

pub fn check(class: &Class, label: &str, l: &mut Local) -> Check {
    let chars: Vec<char> = label.chars().collect();
    let idc = IdentifierClass::default();
    let ffc = FreeformClass::default();
    let case = || json!({"op": "allows", "class": class.json(), "label": jstr(label)});
    l.eval();
    let (got, want) = match class {
        Class::Id => (guard(|| idc.allows(label)), ref_allows(&chars, &|c| Dpv::of(idc.get_value_from_char(c)))),
        Class::Ff => (guard(|| ffc.allows(label)), ref_allows(&chars, &|c| Dpv::of(ffc.get_value_from_char(c)))),
        Class::User(u) => (guard(|| u.allows(label)), ref_allows(&chars, &|c| Dpv::of(u.get_value_from_char(c)))),
    };
    let want_s = match &want {
        Ok(()) => "Ok(())".to_string(),
        Err(a) => a.iter().map(|e| format!("Err({e:?})")).collect::<Vec<_>>().join(" | "),
    };
    let got = match got {
        Ok(g) => g.map_err(|e| rerr(&e)),
        Err(p) => return Err(Violation::new(case(), want_s, format!("panic: {p}"))),
    };
    let ok = match (&got, &want) {
        (Ok(()), Ok(())) => true,
        (Err(e), Err(alts)) => alts.contains(e),
        _ => false,
    };
    if !ok {
        return Err(Violation::new(case(), want_s, format!("{got:?}")));
    }
    if !matches!(class, Class::User(_)) {
        if let Err(RErr::Missing { .. }) | Err(RErr::CtxNotApplicable { .. }) = got {
            return Err(Violation::new(case(), "standard classes never report a missing or inapplicable context rule", format!("{got:?}")));
        }
    }
    // non-trivial
    if chars.len() >= 2 {
        let first_off = match &want {
            Ok(()) => chars.len(),
            Err(a) => a.iter().find_map(|e| match e { RErr::Bad { pos, .. } | RErr::Missing { pos, .. } => Some(*pos), _ => None }).unwrap_or(0),
        };
        let multibyte_before = chars[..first_off.min(chars.len())].iter().any(|c| c.len_utf8() > 1);
        let has_ctx = chars.iter().any(|c| ref_registry(*c as u32).is_some());
        if multibyte_before || has_ctx {
            l.nt(hash64(&(class, label)));
            l.label(match (&got, has_ctx) {
                (Ok(()), true) => "accepted_with_contextual",
                (Ok(()), false) => "accepted_multibyte",
                (Err(RErr::Undefined), _) => "rejected_undefined_context",
                (Err(RErr::Missing { .. }), _) => "rejected_missing_rule",
                (Err(_), true) => "rejected_label_has_contextual",
                (Err(_), false) => "rejected_after_multibyte",
            });
            if l.want_sample() {
                l.sample(json!({"class": class.json(), "label": esc(label), "result": format!("{got:?}")}));
            }
        }
    }
    Ok(())
}

const ALPHA30: [u32; 30] = [
    0x61, 0x6c, 0x41, 0x20, 0xe9, 0xb7, 0x200c, 0x200d, 0x94d, 0x375, 0x3b1, 0x5f3, 0x5d0, 0x30fb, 0x3042, 0x660, 0x6f0, 0x626, 0x627, 0x5bf,
    0xa872, 0x4e00, 0x2126, 0x1d11e, 0x10400, 0xe000, 0x378, 0x0, 0xff21, 0x640,
];

pub fn run(run: &Run) {
    run.set_rule(
        "Generator: (a) all labels of length <= L (L=3 quick, 4 thorough) over a 30-character alphabet (letters of 1-4 bytes, all contextual code points \
         with the neighbours their rules look at, disallowed/unassigned/compat characters) for IdentifierClass and FreeformClass; (b) proptest labels \
         (length 0..=10, one in six behind/in front of a pad of 7..257 valid 1-4-byte characters) with a class-directed mix (every derived-property value, contextual code points with satisfied / unsatisfied / off-the-end \
         contexts) for both standard classes; (c) generated user classes: a proptest assignment of the 7 derived-property values to up to 24 \
         characters (letters plus the real contextual code points) with a generated default, and labels over that alphabet. Oracle: reference scan in \
         code-point order (classification = the class's own get_value_from_char, context truth = RFC 5892 reference rules, registry = RFC list): the \
         allowed result is Ok, BadCodepoint{cp, code-point index, value} of the FIRST offender, MissingContextRule for an unregistered contextual value, \
         and Undefined only where the reference rule says a neighbour lies outside the label; standard classes never report Missing/NotApplicable. \
         Non-trivial: >= 2 code points and (a multi-byte code point before the first offender, or a contextual code point in the label); distinct = \
         distinct (class,label). Plus the deterministic long-input / call-order batteries of DESIGN.md 8.1 and 8.2 that apply to this property (extreme scale, mark neighbours, distinct runs with repeats, environment children, thread lifetime, concurrent distinct inputs; alignment sweeps 0..72 and around 128..65536 bytes, runs and exact counts, sandwiches and multi-megabyte inputs, exhaustive pair sets, plane/byte aliases, hash-colliding pairs back to back, owned arguments with spare capacity); each battery is a finite list enumerated completely and appears as its own section in 'sections'.",
    );
    let maxlen = run.pick(3u32, 4u32);
    let mut total = 0u64;
    for len in 0..=maxlen {
        total += 30u64.pow(len);
    }
    run.par("enum_alpha30", true, |tid, n, l| {
        let mut idx = tid as u64;
        while idx < total {
            if idx % 4096 < n as u64 && run.stopped() {
                return;
            }
            let mut rem = idx;
            let mut len = 0u32;
            loop {
                let c = 30u64.pow(len);
                if rem < c {
                    break;
                }
                rem -= c;
                len += 1;
            }
            let mut s = String::new();
            for _ in 0..len {
                s.push(char::from_u32(ALPHA30[(rem % 30) as usize]).unwrap());
                rem /= 30;
            }
            l.cases += 1;
            for c in [Class::Id, Class::Ff] {
                if let Err(v) = check(&c, &s, l) {
                    run.violate(v);
                    return;
                }
            }
            idx += n as u64;
        }
    });
    let mk = || {
        let ch = prop_oneof![30 => gens::pick_classed(&pools().by_id), 30 => gens::pick(&pools().ctx), 20 => gens::pick(&pools().id_valid), 10 => gens::pick(&pools().general), 10 => gens::gchar()];
        (gens::padded(vec(ch, 0..=10).prop_map(gens::s_of).boxed()), any::<bool>())
    };
    run.prop("random_standard", run.pick(2_000_000, 40_000_000), mk, |(s, ff), l| check(if *ff { &Class::Ff } else { &Class::Id }, s, l));
    run.prop("clustered_contextual_labels", run.pick(1_000_000, 20_000_000), || (gens::clustered_labels(), any::<bool>()), |(s, ff), l| check(if *ff { &Class::Ff } else { &Class::Id }, s, l));
    super::pipe::stress(run, "alignment_and_runs", &["l\u{b7}l", "l\u{b7}", "\u{94d}\u{200d}", "a\u{200d}", "\u{626}\u{200c}\u{626}", "\u{375}\u{3b1}", "\u{5d0}\u{5f3}", "\u{30fb}\u{3042}", "\u{660}", "\u{660}\u{6f0}", "\u{6f0}\u{660}", "\u{6f0}x\u{660}", "\u{2126}", "\u{378}"], &|s, l| {
        for c in [Class::Id, Class::Ff] {
            if let Err(v) = check(&c, s, l) {
                run.violate(v);
                return false;
            }
        }
        true
    });
    // ZWNJ between transparent runs (0..=40 and around 64/128/256/512/1000/1024/4096), contextual families, counted words
    let mut labels = super::pipe::zwnj_run_labels();
    labels.extend(super::pipe::counted_word_labels());
    labels.extend(super::pipe::PAYLOADS_FAMILIES.iter().map(|s| s.to_string()));
    super::pipe::battery(run, "zwnj_long_runs", &labels, &|s, l| {
        for c in [Class::Id, Class::Ff] {
            if let Err(v) = check(&c, s, l) {
                run.violate(v);
                return false;
            }
        }
        true
    });
    {
        let mut labels = super::pipe::zwnj_huge_run_labels(&[]);
        labels.extend(super::pipe::huge_whole_label_labels(&[]));
        super::pipe::battery(run, "huge_labels", &labels, &|s, l| {
            for c in [Class::Id, Class::Ff] {
                if let Err(v) = check(&c, s, l) {
                    run.violate(v);
                    return false;
                }
            }
            true
        });
    }
    // all labels of length <= 9 over {dual-joining letter, transparent mark, ZWNJ, 'a', virama}: several joiners in one label whose
    // immediate neighbourhoods coincide while their wider contexts differ
    super::pipe::enum_strings(run, "enum_joiner5", &['\u{628}', '\u{651}', '\u{200c}', 'a', '\u{94d}'], run.pick(9, 10), &|s, l| {
        for c in [Class::Id, Class::Ff] {
            if let Err(v) = check(&c, s, l) {
                run.violate(v);
                return false;
            }
        }
        true
    });
    // and over the whole-label families with a second member of the same row
    super::pipe::enum_strings(run, "enum_rows7", &['\u{661}', '\u{6f3}', '\u{30fb}', '\u{30a2}', 'a', '\u{66e}', '\u{6fa}'], run.pick(6, 7), &|s, l| {
        for c in [Class::Id, Class::Ff] {
            if let Err(v) = check(&c, s, l) {
                run.violate(v);
                return false;
            }
        }
        true
    });
    // every code point that is not valid in the class right after / before the nearest valid code point below it and above it
    // (validation shortcuts that trust the neighbourhood of an accepted character)
    run.par("nearest_valid_neighbour_pairs", true, |tid, n, l| {
        let d = crate::ucd::db();
        for (ci, class) in [Class::Id, Class::Ff].iter().enumerate() {
            let valid = |cp: u32| {
                let v = if ci == 0 { d.id(cp) } else { d.ff(cp) };
                matches!(v, Dpv::PValid | Dpv::SpecPval)
            };
            let mut last_valid: Option<char> = None;
            // a forward pass (nearest valid below), each thread takes a stripe of 4096 code points but needs the valid
            // character before its stripe: recompute by scanning back
            let mut cp = 0u32;
            while cp < 0x110000 {
                let stripe = (cp / 4096) as usize;
                if stripe % n != tid {
                    cp += 4096;
                    last_valid = None;
                    continue;
                }
                if last_valid.is_none() {
                    let mut b = cp;
                    while b > 0 {
                        b -= 1;
                        if valid(b) {
                            last_valid = char::from_u32(b);
                            break;
                        }
                    }
                }
                if let Some(c) = char::from_u32(cp) {
                    if valid(cp) {
                        last_valid = Some(c);
                    } else if let Some(v) = last_valid {
                        for s in [format!("{v}{c}"), format!("{c}{v}"), format!("a{v}{v}{c}")] {
                            l.cases += 1;
                            if let Err(e) = check(class, &s, l) {
                                run.violate(e);
                                return;
                            }
                        }
                    }
                }
                cp += 1;
            }
        }
    });
    let mk_user = || {
        let alphabet: Vec<char> = "abcdelxyz".chars().chain([0xb7u32, 0x200c, 0x200d, 0x375, 0x5f3, 0x5f4, 0x30fb, 0x660, 0x6f0, 0x94d, 0x3b1, 0x5d0, 0x626, 0x627, 0x3042].iter().map(|c| char::from_u32(*c).unwrap())).collect();
        let n = alphabet.len();
        let alpha2 = alphabet.clone();
        (vec(0u8..7, n), 0u8..7, vec(prop_oneof![9 => (0..n).prop_map(move |i| alpha2[i]), 1 => gens::gchar()], 0..=8)).prop_map(move |(vals, default, label)| {
            let map: Vec<(char, Dpv)> = alphabet.iter().zip(vals.iter()).map(|(c, v)| (*c, Dpv::from_u8(*v))).collect();
            (Class::User(UserClass { map, default: Dpv::from_u8(default), delegate: 0 }), label.into_iter().collect::<String>())
        })
    };
    run.prop("random_user_classes", run.pick(500_000, 10_000_000), mk_user, |(c, s), l| check(c, s, l));
    // user classes over the contextual code points AND the other members of their rows / their numeric neighbours, with labels that
    // concentrate on a few characters of the alphabet (a rule found for one member of a row must not vouch for another member)
    let mk_rows = || {
        let alphabet: Vec<char> = [0x61u32, 0x6c, 0xb6, 0xb7, 0xb8, 0x200b, 0x200c, 0x200d, 0x200e, 0x374, 0x375, 0x376, 0x3b1, 0x5d0, 0x5f2, 0x5f3, 0x5f4, 0x5f5, 0x30a2, 0x30f7, 0x30fa, 0x30fb, 0x30fc, 0x30ff, 0x65f, 0x660, 0x661,
            0x669, 0x66a, 0x66e, 0x66f, 0x6ef, 0x6f0, 0x6f3, 0x6f9, 0x6fa, 0x6ff, 0x94d, 0x626, 0x3042].iter().map(|c| char::from_u32(*c).unwrap()).collect();
        let n = alphabet.len();
        let val = prop_oneof![4 => Just(0u8), 2 => Just(3u8), 3 => Just(4u8), 1 => 0u8..7];
        (vec(val, n), vec(0..n, 2..=5), vec(0usize..64, 0..=7), 0u8..3).prop_map(move |(vals, focus, picks, delegate)| {
            let map: Vec<(char, Dpv)> = alphabet.iter().zip(vals.iter()).map(|(c, v)| (*c, Dpv::from_u8(*v))).collect();
            let label: String = picks.iter().map(|p| if *p < 56 { alphabet[focus[*p * focus.len() / 56]] } else { alphabet[(*p - 56) * n / 8] }).collect();
            // one class in three keeps only the assignments of its focus characters and refines IdentifierClass / FreeformClass for the rest
            let map: Vec<(char, Dpv)> = if delegate > 0 { focus.iter().map(|i| map[*i]).collect() } else { map };
            (Class::User(UserClass { map, default: Dpv::PValid, delegate }), label)
        })
    };
    run.prop("random_user_classes_row_neighbours", run.pick(1_000_000, 20_000_000), mk_rows, |(c, s), l| check(c, s, l));
}

pub fn replay(_run: &Run, case: &Value) -> Check {
    let class = Class::from_json(&case["class"]);
    let label = jget_str(case, "label").unwrap();
    check(&class, &label, &mut Local::default())
}
