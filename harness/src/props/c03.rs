//! C03 — context rules decide exactly what RFC 5892 Appendix A prescribes
use crate::engine::*;
use crate::gens::{self, pools};
use crate::model::*;
use crate::ucd::{db, Dpv};
use precis_core::context::get_context_rule;
use precis_core::{FreeformClass, IdentifierClass, StringClass};
use proptest::collection::vec;
use proptest::prelude::*;
use serde_json::{json, Value};

fn case_json(rule: CtxRule, label: &str, pos: usize) -> Value {
    json!({"op": "context_rule", "rule": rule.name(), "label": jstr(label), "pos": pos})
}

/// one rule at one position of one label
pub fn check_at(rule: CtxRule, chars: &[char], label: &str, pos: usize, l: &mut Local) -> Check {
    l.eval();
    let allowed = ref_ctx(rule, chars, pos);
    let got = match guard(|| (rule.imp())(label, pos)) {
        Ok(r) => ans_of(&r),
        Err(p) => return Err(Violation::new(case_json(rule, label, pos), fmt_ans(allowed), format!("panic: {p}"))),
    };
    if got & allowed == 0 {
        return Err(Violation::new(case_json(rule, label, pos), fmt_ans(allowed), fmt_ans(got)));
    }
    if pos < chars.len() && rule.owns(chars[pos] as u32) && chars.len() >= 2 {
        l.nt(hash64(&(rule, label, pos)));
        l.label(match got {
            A_TRUE => "own_cp:true",
            A_FALSE => "own_cp:false",
            _ => "own_cp:undefined",
        });
        if l.want_sample() {
            l.sample(json!({"rule": rule.name(), "label": esc(label), "pos": pos, "allowed": fmt_ans(allowed), "observed": fmt_ans(got)}));
        }
    }
    Ok(())
}

fn check_label_all(chars: &[char], positions: &[usize], rules: &[CtxRule], l: &mut Local) -> Check {
    let label: String = chars.iter().collect();
    for r in rules {
        for p in positions {
            check_at(*r, chars, &label, *p, l)?;
        }
    }
    Ok(())
}

pub fn check_registry(cp: u32, l: &mut Local) -> Check {
    let d = db();
    l.evals_n(3);
    let registered = get_context_rule(cp);
    let id = Dpv::of(IdentifierClass::default().get_value_from_codepoint(cp));
    let ff = Dpv::of(FreeformClass::default().get_value_from_codepoint(cp));
    let ctx = |v: Dpv| matches!(v, Dpv::ContextJ | Dpv::ContextO);
    let want = if cp <= 0x10ffff { ctx(d.id(cp)) } else { false };
    let case = || json!({"op": "registry", "cp": format!("U+{cp:04X}"), "cp_value": cp});
    if registered.is_some() != want || ctx(id) != want || ctx(ff) != want {
        return Err(Violation::new(
            case(),
            format!("registered rule <=> derived property CONTEXTJ/CONTEXTO (reference: {want})"),
            format!("get_context_rule.is_some()={} IdentifierClass={id:?} FreeformClass={ff:?}", registered.is_some()),
        ));
    }
    if let (Some(rule), Some(c)) = (registered, char::from_u32(cp)) {
        let s = c.to_string();
        l.eval();
        let r = rule(&s, 0);
        if r == Err(precis_core::context::ContextRuleError::NotApplicable) {
            return Err(Violation::new(case(), "the registered rule applies to its code point", "Err(NotApplicable)"));
        }
        // and it is the rule the RFC registers for it
        let rr = ref_registry(cp).expect("reference registry");
        for probe in [format!("{c}"), format!("l{c}l"), format!("\u{94d}{c}\u{3b1}"), format!("\u{5d0}{c}\u{3042}"), format!("\u{626}{c}\u{626}"), format!("\u{6f0}{c}"), format!("\u{660}{c}")] {
            let pc: Vec<char> = probe.chars().collect();
            let pos = pc.iter().position(|x| *x == c).unwrap();
            l.eval();
            let got = ans_of(&rule(&probe, pos));
            let allowed = ref_ctx(rr, &pc, pos);
            if got & allowed == 0 {
                return Err(Violation::new(
                    json!({"op": "registry", "cp": format!("U+{cp:04X}"), "cp_value": cp, "probe": jstr(&probe), "pos": pos}),
                    format!("registered rule behaves as RFC rule {}: {}", rr.name(), fmt_ans(allowed)),
                    fmt_ans(got),
                ));
            }
        }
        l.nt(hash64(&("registry", cp)));
    }
    Ok(())
}

const D: char = '\u{626}';
const ZWNJ: char = '\u{200c}';
const ZWJ: char = '\u{200d}';

pub fn run(run: &Run) {
    run.set_rule(
        "Generator: (a) per-role sweep: every Unicode scalar value x as the inspected neighbour in 18 label templates (ZWJ-before, ZWNJ-before, \
         ZWNJ-before-through-T, ZWNJ-after, ZWNJ-after-through-T, keraia-after, geresh/gershayim-before, katakana-dot before/after, middle-dot \
         before/after, both digit rules before/after), each evaluated with all 8 rule functions at the rule position and the target rule at every \
         position 0..=len+1; (b) all strings of length <= L over {L,D,R,T,U,virama,ZWNJ,ZWJ} (L=6 quick/7 thorough) for both joiner rules at every \
         position, all strings <= 5 over {U+06F0,U+0660,a,U+30FB,hiragana,halfwidth katakana,han} for the whole-label rules; (b2) ZWNJ between transparent \
         runs of every length 0..=40 on both sides with 6x4 end characters, and every contextual pattern behind prefixes of 15..4097 letters of 1-4 bytes; (c) proptest labels \
         and positions (inside, outside, usize::MAX) for all 8 functions; (d) registry sweep over 0..=0x10FFFF and out-of-range values. Oracle: \
         RFC 5892 App. A over my parse of UCD 6.3.0 (ccc, Joining_Type, Script) returning the SET of allowed answers: true iff the condition holds; \
         false, or undefined only if a neighbour the rule inspects lies outside the label; NotApplicable iff the code point is not the rule's own; \
         Undefined for positions outside. Non-trivial: the position holds the rule's own code point and the label has >= 2 characters; \
         distinct = distinct (rule,label,position). Plus the deterministic long-input / call-order batteries of DESIGN.md 8.1 and 8.2 that apply to this property (extreme scale, mark neighbours, distinct runs with repeats, environment children, thread lifetime, concurrent distinct inputs; alignment sweeps 0..72 and around 128..65536 bytes, runs and exact counts, sandwiches and multi-megabyte inputs, exhaustive pair sets, plane/byte aliases, hash-colliding pairs back to back, owned arguments with spare capacity); each battery is a finite list enumerated completely and appears as its own section in 'sections'.",
    );
    run.assume("Joining_Type, Script and ccc from the pinned UCD 6.3.0 files; 'undefined' is accepted instead of 'false' only where the RFC condition is false and a neighbour lies outside the label");

    // (a) per-role sweep
    run.par("per_role_sweep_all_scalars", true, |tid, n, l| {
        let mut cp = tid as u32;
        while cp < 0x110000 {
            if let Some(x) = char::from_u32(cp) {
                if cp % 4096 == 0 && run.stopped() {
                    return;
                }
                let templates: [(&[char], usize, CtxRule); 18] = [
                    (&[x, ZWJ], 1, CtxRule::Zwj),
                    (&[x, ZWNJ, D], 1, CtxRule::Zwnj),
                    (&[D, x, ZWNJ, D], 2, CtxRule::Zwnj),
                    (&[D, ZWNJ, x], 1, CtxRule::Zwnj),
                    (&[D, ZWNJ, x, D], 1, CtxRule::Zwnj),
                    (&['\u{a872}', '\u{5bf}', x, ZWNJ, '\u{5bf}', '\u{629}'], 3, CtxRule::Zwnj),
                    (&['\u{375}', x], 0, CtxRule::Keraia),
                    (&[x, '\u{5f3}'], 1, CtxRule::HebrewPunct),
                    (&[x, '\u{5f4}'], 1, CtxRule::HebrewPunct),
                    (&[x, '\u{30fb}'], 1, CtxRule::KatakanaDot),
                    (&['\u{30fb}', 'a', x], 0, CtxRule::KatakanaDot),
                    (&[x, '\u{b7}', 'l'], 1, CtxRule::MiddleDot),
                    (&['l', '\u{b7}', x], 1, CtxRule::MiddleDot),
                    (&['\u{660}', x], 0, CtxRule::ArabicIndic),
                    (&[x, 'a', '\u{665}'], 2, CtxRule::ArabicIndic),
                    (&['\u{6f0}', x], 0, CtxRule::ExtArabicIndic),
                    (&[x, 'a', '\u{6f5}'], 2, CtxRule::ExtArabicIndic),
                    (&[x], 0, CtxRule::Zwj),
                ];
                for (chars, pos, rule) in templates {
                    l.cases += 1;
                    let label: String = chars.iter().collect();
                    // all rules at the rule position
                    for r in ALL_RULES {
                        if let Err(v) = check_at(r, chars, &label, pos, l) {
                            run.violate(v);
                            return;
                        }
                    }
                    // the target rule at every position
                    for p in 0..=chars.len() + 1 {
                        if p != pos {
                            if let Err(v) = check_at(rule, chars, &label, p, l) {
                                run.violate(v);
                                return;
                            }
                        }
                    }
                }
            }
            cp += n as u32;
        }
    });

    // (b) arrangements
    let alpha: [char; 8] = ['\u{a872}', D, '\u{627}', '\u{5bf}', 'a', '\u{94d}', ZWNJ, ZWJ];
    let maxlen = run.pick(6u32, 7u32);
    let mut total = 0u64;
    for len in 0..=maxlen {
        total += 8u64.pow(len);
    }
    run.par("joiner_arrangements", true, |tid, n, l| {
        let mut idx = tid as u64;
        let mut chars: Vec<char> = Vec::new();
        while idx < total {
            if idx % 4096 < n as u64 && run.stopped() {
                return;
            }
            let mut rem = idx;
            let mut len = 0u32;
            loop {
                let c = 8u64.pow(len);
                if rem < c {
                    break;
                }
                rem -= c;
                len += 1;
            }
            chars.clear();
            for _ in 0..len {
                chars.push(alpha[(rem % 8) as usize]);
                rem /= 8;
            }
            l.cases += 1;
            let positions: Vec<usize> = (0..=chars.len() + 1).collect();
            if let Err(v) = check_label_all(&chars, &positions, &[CtxRule::Zwnj, CtxRule::Zwj], l) {
                run.violate(v);
                return;
            }
            idx += n as u64;
        }
    });
    let alpha2: [char; 7] = ['\u{6f0}', '\u{660}', 'a', '\u{30fb}', '\u{3042}', '\u{ff76}', '\u{6f22}'];
    let mut total2 = 0u64;
    for len in 0..=5 {
        total2 += 7u64.pow(len);
    }
    run.par("whole_label_arrangements", true, |tid, n, l| {
        let mut idx = tid as u64;
        let mut chars: Vec<char> = Vec::new();
        while idx < total2 {
            let mut rem = idx;
            let mut len = 0u32;
            loop {
                let c = 7u64.pow(len);
                if rem < c {
                    break;
                }
                rem -= c;
                len += 1;
            }
            chars.clear();
            for _ in 0..len {
                chars.push(alpha2[(rem % 7) as usize]);
                rem /= 7;
            }
            l.cases += 1;
            let positions: Vec<usize> = (0..=chars.len() + 1).collect();
            if let Err(v) = check_label_all(&chars, &positions, &[CtxRule::KatakanaDot, CtxRule::ArabicIndic, CtxRule::ExtArabicIndic], l) {
                run.violate(v);
                return;
            }
            idx += n as u64;
        }
    });

    // (b2) long transparent runs around ZWNJ and contextual code points far from the start of the label
    run.par("long_runs_and_far_offsets", true, |tid, n, l| {
        let ends: [char; 6] = ['\u{a872}', D, '\u{627}', 'a', '\u{94d}', '\u{5bf}'];
        let mut idx = 0usize;
        for nb in 0..=40usize {
            for na in 0..=40usize {
                for (ei, left) in ends.iter().enumerate() {
                    for right in [D, '\u{627}', 'a', '\u{a872}'] {
                        idx += 1;
                        if idx % n != tid {
                            continue;
                        }
                        // thin the 6x4 end combinations for long runs
                        if nb > 6 && na > 6 && (ei + nb + na) % 3 != 0 {
                            continue;
                        }
                        let mut chars: Vec<char> = vec![*left];
                        chars.extend(std::iter::repeat('\u{5bf}').take(nb));
                        chars.push(ZWNJ);
                        chars.extend(std::iter::repeat('\u{64e}').take(na));
                        chars.push(right);
                        l.cases += 1;
                        if let Err(v) = check_label_all(&chars, &[nb + 1, nb, nb + 2, 0, chars.len() - 1], &[CtxRule::Zwnj, CtxRule::Zwj], l) {
                            run.violate(v);
                            return;
                        }
                    }
                }
            }
        }
        // every contextual pattern behind a long prefix of letters (offsets beyond 15, 255, 1000 ...)
        let patterns: [(&[char], usize); 12] = [
            (&['l', '\u{b7}', 'l'], 1), (&['l', '\u{b7}', 'a'], 1), (&['\u{94d}', ZWJ], 1), (&['a', ZWJ], 1), (&[D, ZWNJ, D], 1), (&['\u{375}', '\u{3b1}'], 0),
            (&['\u{5d0}', '\u{5f3}'], 1), (&['a', '\u{5f4}'], 1), (&['\u{30fb}', '\u{3042}'], 0), (&['\u{30fb}', 'a'], 0), (&['\u{660}', '\u{6f0}'], 0), (&['\u{6f0}', 'a'], 0),
        ];
        for (pi, plen) in [15usize, 16, 17, 31, 32, 33, 63, 64, 65, 127, 128, 255, 256, 257, 1000, 4097].iter().enumerate() {
            if pi % n != tid {
                continue;
            }
            for unit in ['a', '\u{e9}', '\u{6f22}', '\u{10428}'] {
                for (pat, off) in patterns {
                    for tail in [0usize, 1, 40] {
                        let mut chars: Vec<char> = std::iter::repeat(unit).take(*plen).collect();
                        chars.extend_from_slice(pat);
                        chars.extend(std::iter::repeat('z').take(tail));
                        let label: String = chars.iter().collect();
                        l.cases += 1;
                        for r in ALL_RULES {
                            if let Err(v) = check_at(r, &chars, &label, plen + off, l) {
                                run.violate(v);
                                return;
                            }
                        }
                    }
                }
            }
        }
    });

    super::pipe::stress(run, "alignment_and_runs", &["l\u{b7}l", "l\u{b7}a", "\u{94d}\u{200d}", "a\u{200d}", "\u{626}\u{200c}\u{626}", "\u{626}\u{5bf}\u{200c}\u{64e}\u{627}", "\u{375}\u{3b1}", "\u{5d0}\u{5f3}", "a\u{5f4}", "\u{30fb}\u{3042}", "\u{30fb}", "\u{660}\u{6f0}", "\u{6f0}\u{660}", "\u{6f0}x\u{660}", "\u{660}x\u{6f0}", "\u{6f0}"], &|s, l| {
        let chars: Vec<char> = s.chars().collect();
        // every position that holds a contextual code point, and its neighbours
        let mut positions: Vec<usize> = Vec::new();
        for (i, c) in chars.iter().enumerate() {
            if ref_registry(*c as u32).is_some() {
                positions.extend([i.saturating_sub(1), i, i + 1]);
            }
        }
        positions.push(chars.len());
        positions.dedup();
        match check_label_all(&chars, &positions, &ALL_RULES, l) {
            Ok(()) => true,
            Err(v) => {
                run.violate(v);
                false
            }
        }
    });
    {
        let labels = super::pipe::zwnj_run_labels();
        super::pipe::battery(run, "zwnj_run_labels", &labels, &|s, l| {
            let chars: Vec<char> = s.chars().collect();
            let z = chars.iter().position(|c| *c == ZWNJ).unwrap();
            match check_label_all(&chars, &[z, z.saturating_sub(1), z + 1, 0, chars.len() - 1, chars.len()], &[CtxRule::Zwnj, CtxRule::Zwj], l) {
                Ok(()) => true,
                Err(v) => {
                    run.violate(v);
                    false
                }
            }
        });
        let extra: Vec<usize> = run.pick(vec![], vec![200_000]);
        let labels = super::pipe::zwnj_huge_run_labels(&extra);
        super::pipe::battery(run, "zwnj_huge_runs", &labels, &|s, l| {
            let chars: Vec<char> = s.chars().collect();
            let z = chars.iter().position(|c| *c == ZWNJ).unwrap();
            match check_label_all(&chars, &[z], &[CtxRule::Zwnj], l) {
                Ok(()) => true,
                Err(v) => {
                    run.violate(v);
                    false
                }
            }
        });
        let extra: Vec<usize> = run.pick(vec![], vec![1 << 24]);
        let labels = super::pipe::huge_whole_label_labels(&extra);
        super::pipe::battery(run, "huge_whole_label_labels", &labels, &|s, l| {
            let chars: Vec<char> = s.chars().collect();
            let positions: Vec<usize> = [0usize, chars.len() - 1].into_iter().filter(|p| ref_registry(chars[*p] as u32).is_some()).collect();
            match check_label_all(&chars, &positions, &[CtxRule::KatakanaDot, CtxRule::ArabicIndic, CtxRule::ExtArabicIndic], l) {
                Ok(()) => true,
                Err(v) => {
                    run.violate(v);
                    false
                }
            }
        });
        // positions that alias an in-label position modulo 2^8, 2^16, 2^31, 2^32, 2^63 (offset truncated to a narrower integer)
        let fam: Vec<String> = super::pipe::PAYLOADS_FAMILIES.iter().map(|s| s.to_string()).chain(["l\u{b7}l".to_string(), "\u{94d}\u{200d}".to_string(), "\u{5d0}\u{5f3}".to_string(), "\u{375}\u{3b1}".to_string(), "\u{626}\u{200c}\u{626}".to_string()]).collect();
        super::pipe::battery(run, "position_aliases", &fam, &|s, l| {
            let chars: Vec<char> = s.chars().collect();
            let mut positions: Vec<usize> = Vec::new();
            for p in 0..=chars.len() + 1 {
                for sh in [8u32, 16, 31, 32, 33, 48, 63] {
                    if let Some(x) = 1usize.checked_shl(sh) {
                        positions.push(p.wrapping_add(x));
                        positions.push(x.wrapping_sub(p).wrapping_sub(1));
                        positions.push(p | x);
                    }
                }
            }
            match check_label_all(&chars, &positions, &ALL_RULES, l) {
                Ok(()) => true,
                Err(v) => {
                    run.violate(v);
                    false
                }
            }
        });
    }
    // labels made of several contextual clusters far apart: every rule at every position that holds a contextual code point
    run.prop("clustered_contextual_labels", run.pick(300_000, 6_000_000), gens::clustered_labels, |s, l| {
        let chars: Vec<char> = s.chars().collect();
        let positions: Vec<usize> = chars.iter().enumerate().filter(|(_, c)| ref_registry(**c as u32).is_some()).map(|(i, _)| i).collect();
        check_label_all(&chars, &positions, &ALL_RULES, l)
    });
    // every Unicode scalar value as the inspected neighbour in the 17 templates again, behind 3000 two-byte letters (code paths that only
    // exist for long labels); one evaluation of the target rule per template
    run.par("per_role_sweep_behind_long_prefix", true, |tid, n, l| {
        let plen = 3000usize;
        let prefix: Vec<char> = std::iter::repeat('\u{e9}').take(plen).collect();
        let mut chars: Vec<char> = Vec::with_capacity(plen + 8);
        let mut label = String::with_capacity(2 * plen + 32);
        let mut cp = tid as u32;
        while cp < 0x110000 {
            if let Some(x) = char::from_u32(cp) {
                if cp % 4096 < n as u32 && run.stopped() {
                    return;
                }
                // only code points that some rule can tell apart from an ordinary letter, plus every 64th other one
                let d = db();
                let k = cp as usize;
                // (viramas, every code point with a Joining_Type or one of the scripts the rules ask for, contextual code points, the Arabic block)
                let special = k < crate::ucd::N && (d.u63.ccc[k] == 9 || d.jt(cp) != 0 || d.sc(cp) != 0 || ref_registry(cp).is_some() || (0x600..0x700).contains(&cp));
                if special || cp % 64 == 0 {
                    let templates: [(&[char], usize, CtxRule); 12] = [
                        (&[x, ZWJ], 1, CtxRule::Zwj),
                        (&[x, ZWNJ, D], 1, CtxRule::Zwnj),
                        (&[D, x, ZWNJ, D], 2, CtxRule::Zwnj),
                        (&[D, ZWNJ, x], 1, CtxRule::Zwnj),
                        (&[D, ZWNJ, x, D], 1, CtxRule::Zwnj),
                        (&['\u{375}', x], 0, CtxRule::Keraia),
                        (&[x, '\u{5f3}'], 1, CtxRule::HebrewPunct),
                        (&['\u{30fb}', 'a', x], 0, CtxRule::KatakanaDot),
                        (&[x, '\u{b7}', 'l'], 1, CtxRule::MiddleDot),
                        (&['l', '\u{b7}', x], 1, CtxRule::MiddleDot),
                        (&['\u{660}', x, '\u{6f1}'], 0, CtxRule::ArabicIndic),
                        (&['\u{6f1}', x, '\u{661}'], 0, CtxRule::ExtArabicIndic),
                    ];
                    for (t, pos, rule) in templates {
                        chars.clear();
                        chars.extend_from_slice(&prefix);
                        chars.extend_from_slice(t);
                        label.clear();
                        label.extend(chars.iter());
                        l.cases += 1;
                        if let Err(v) = check_at(rule, &chars, &label, plen + pos, l) {
                            run.violate(v);
                            return;
                        }
                    }
                }
            }
            cp += n as u32;
        }
    });
    // (c) random labels and positions, all 8 functions
    let mk = || {
        let ch = prop_oneof![45 => gens::pick(&pools().ctx), 15 => gens::pick_classed(&pools().by_jt), 10 => gens::pick(&pools().virama), 20 => gens::pick(&pools().general), 10 => gens::gchar()];
        (vec(ch, 0..=10), prop_oneof![8 => 0usize..14, 1 => Just(usize::MAX), 1 => (usize::MAX - 3)..=usize::MAX, 1 => any::<usize>()])
    };
    run.prop("random_labels_positions", run.pick(1_000_000, 30_000_000), mk, |(chars, pos), l| {
        check_label_all(chars, &[*pos], &ALL_RULES, l)
    });

    // (d) registry
    run.par("registry_sweep", true, |tid, n, l| {
        let mut cp = tid as u32;
        while cp < 0x110000 {
            l.cases += 1;
            if let Err(v) = check_registry(cp, l) {
                run.violate(v);
                return;
            }
            cp += n as u32;
        }
        if tid == 0 {
            for cp in [0x110000u32, 0x11200c, 0x20200d, 0x800000b7, 0xffff0375, u32::MAX, 0x7fffffff, 0x100660, 0x2005f4] {
                l.cases += 1;
                if let Err(v) = check_registry(cp, l) {
                    run.violate(v);
                    return;
                }
            }
        }
    });
    run.prop("registry_random_above_range", run.pick(200_000, 5_000_000), || 0x110000u32..=u32::MAX, |cp, l| check_registry(*cp, l));
}

pub fn replay(_run: &Run, case: &Value) -> Check {
    let mut l = Local::default();
    match case.get("op").and_then(|o| o.as_str()) {
        Some("context_rule") => {
            let rule = CtxRule::from_name(case["rule"].as_str().unwrap()).expect("rule");
            let label = jget_str(case, "label").unwrap();
            let chars: Vec<char> = label.chars().collect();
            check_at(rule, &chars, &label, case["pos"].as_u64().unwrap() as usize, &mut l)
        }
        Some("registry") => check_registry(case["cp_value"].as_u64().unwrap() as u32, &mut l),
        _ => panic!("unknown C03 case"),
    }
}
