//! C09 — the directionality rule is the RFC 5893 Bidi rule, on every label
use super::pipe::K1;
use crate::engine::*;
use crate::model::*;
use crate::ucd::{self, db, BIDI_NAMES};
use proptest::collection::vec;
use proptest::prelude::*;
use serde_json::{json, Value};
use std::sync::OnceLock;

fn case_json(p: Prof, s: &str) -> Value {
    json!({"op": "directionality_rule", "profile": p.name(), "input": jstr(s)})
}

/// all code points assigned in 16.0.0 per bidi class
fn members() -> &'static Vec<Vec<char>> {
    static M: OnceLock<Vec<Vec<char>>> = OnceLock::new();
    M.get_or_init(|| {
        let d = db();
        let mut m = vec![Vec::new(); 23];
        for cp in 0..ucd::N as u32 {
            if let Some(c) = char::from_u32(cp) {
                if d.u16.listed[cp as usize] {
                    m[d.u16.bidi[cp as usize] as usize].push(c);
                }
            }
        }
        m
    })
}

pub fn check(run: &Run, p: Prof, s: &str, l: &mut Local) -> Check {
    let cl = bidi_classes16(s);
    let rtl = has_rtl_classes(&cl);
    let accept = !rtl || ref_bidi_rule(&cl);
    let want: RRes = if accept { Ok(s.to_string()) } else { Err(RErr::Invalid) };
    l.eval();
    let got = match guard(|| imp_rule(p, RuleKind::Dir, s)) {
        Ok(g) => g,
        Err(pn) => return Err(Violation::new(case_json(p, s), fmt_res(&want), format!("panic: {pn}"))),
    };
    if got != want {
        if run.sig_active(K1) && accept && rtl && got == Err(RErr::Invalid) && has_interior_nsm(&cl) {
            l.known(K1);
            l.label("interior_nsm_known");
        } else {
            let names: Vec<&str> = cl.iter().map(|c| BIDI_NAMES[*c as usize]).collect();
            return Err(Violation::new(case_json(p, s), format!("{} (classes {})", fmt_res(&want), names.join(" ")), fmt_res(&got)));
        }
    }
    if rtl && cl.len() >= 2 {
        l.nt(hash64(&(p, s)));
        l.label(if accept { "rtl_present:rfc_accepts" } else { "rtl_present:rfc_rejects" });
        if l.want_sample() {
            let names: Vec<&str> = cl.iter().map(|c| BIDI_NAMES[*c as usize]).collect();
            l.sample(json!({"profile": p.name(), "input": esc(s), "classes": names.join(" "), "rfc": accept, "observed": fmt_res(&got)}));
        }
    } else {
        l.label("no_rtl_or_single");
    }
    Ok(())
}

fn report(run: &Run, p: Prof, s: &str) {
    let fails = |c: &[char]| {
        let t: String = c.iter().collect();
        let mut sc = Local::default();
        sc.frozen = true;
        check(run, p, &t, &mut sc).is_err()
    };
    // shrink by deletion only (replacement by 'a' changes classes but is fine too)
    let t: String = shrink_chars(s.chars().collect(), &fails).iter().collect();
    let mut sc = Local::default();
    sc.frozen = true;
    if let Err(v) = check(run, p, &t, &mut sc) {
        run.violate(v);
    } else if let Err(v) = check(run, p, s, &mut Local::scratch()) {
        // the shrunk copy (a freshly allocated String) passes: the failure depends on the argument as it was handed over (e.g. the
        // address of a &str view); reported as found
        run.violate(v);
    }
}

const GROUPS: [&[u8]; 7] = [&[0], &[1, 2], &[6], &[3], &[4, 7, 5, 13, 9], &[8], &[10, 11, 12, 14, 15, 16, 17, 18, 19, 20, 21, 22]];

pub fn run(run: &Run) {
    run.set_rule(
        "Generator: (a) all sequences of the 23 bidi classes of length <= A (A=5 quick, 6 thorough) and all sequences of length <= G (G=8 quick, 10 thorough) \
         over the 7 rule-relevant groups {L, R|AL, AN, EN, ES|CS|ET|ON|BN, NSM, other}, each class instantiated by code points drawn with proptest from \
         ALL members of the class assigned in Unicode 16.0.0 (16 representative tables per thread); (b) battery: every code point assigned in 16.0.0 in \
         the six templates [c], [L c], [R c], [R AN c], [R EN c], [R c R] (separates the 7 groups, so a table entry with a wrong rule-relevant class \
         changes an outcome); every class repeated exactly 254..257, 511..513, 65535..65537 times inside 8 RTL/LTR frames; every assigned code point behind LTR and RTL \
         prefixes of 7..65 characters; alignment sweeps and runs of marks; (c) proptest strings over assigned code points biased to RTL-relevant classes; through Rules::directionality_rule of \
         both username profiles. Oracle: bidi class from my parse of UnicodeData 16.0.0 + the six RFC 5893 conditions written over the class sequence: \
         Ok(same string) iff no R/AL/AN present or all conditions hold, else Err(Invalid). Non-trivial: label has an R/AL/AN character and >= 2 \
         characters; distinct = distinct (profile,label). Plus the deterministic long-input / call-order batteries of DESIGN.md 8.1 and 8.2 that apply to this property (extreme scale, mark neighbours, distinct runs with repeats, environment children, thread lifetime, concurrent distinct inputs; alignment sweeps 0..72 and around 128..65536 bytes, runs and exact counts, sandwiches and multi-megabyte inputs, exhaustive pair sets, plane/byte aliases, hash-colliding pairs back to back, owned arguments with spare capacity); each battery is a finite list enumerated completely and appears as its own section in 'sections'.",
    );
    run.assume("domain = code points assigned in Unicode 16.0.0 (as the property states); K1 (interior NSM) is a listed known finding matched on: RFC accepts, NSM followed by non-NSM, implementation returns Invalid");
    let profs = [Prof::UserMapped, Prof::UserPreserved];
    let mem = members();
    // representative tables, drawn with proptest (deterministic per thread)
    let rep_strategy = || {
        let strategies: Vec<BoxedStrategy<char>> = mem.iter().map(|m| (0..m.len()).prop_map(move |i| members_at(i, m)).boxed()).collect();
        strategies
    };
    fn members_at(i: usize, m: &'static Vec<char>) -> char {
        m[i]
    }
    let reps_for = |section: &str, tid: usize| -> Vec<Vec<char>> {
        // 16 tables, each one char per class; table 0 uses fixed "classic" members
        let strategies = rep_strategy();
        let mut tables = Vec::new();
        for t in 0..16 {
            let mut row = Vec::new();
            for (ci, st) in strategies.iter().enumerate() {
                let v = run.sample_strategy(&format!("{section}-{t}-{ci}"), tid, st, 1);
                row.push(v[0]);
            }
            tables.push(row);
        }
        tables
    };

    let amax = run.pick(5u32, 6u32);
    let mut total = 0u64;
    for len in 0..=amax {
        total += 23u64.pow(len);
    }
    run.par("all_class_sequences", true, |tid, n, l| {
        let reps = reps_for("all_class_sequences", tid);
        let mut idx = tid as u64;
        while idx < total {
            if idx % 4096 < n as u64 && run.stopped() {
                return;
            }
            let mut rem = idx;
            let mut len = 0u32;
            loop {
                let c = 23u64.pow(len);
                if rem < c {
                    break;
                }
                rem -= c;
                len += 1;
            }
            let table = &reps[(idx / n as u64 % 16) as usize];
            let mut s = String::new();
            for _ in 0..len {
                s.push(table[(rem % 23) as usize]);
                rem /= 23;
            }
            l.cases += 1;
            let p = profs[(idx % 2) as usize];
            if check(run, p, &s, l).is_err() {
                report(run, p, &s);
                return;
            }
            idx += n as u64;
        }
    });
    let gmax = run.pick(8u32, 10u32);
    let mut total = 0u64;
    for len in 0..=gmax {
        total += 7u64.pow(len);
    }
    run.par("all_group_sequences", true, |tid, n, l| {
        let reps = reps_for("all_group_sequences", tid);
        let mut idx = tid as u64;
        let mut h = idx;
        while idx < total {
            if idx % 4096 < n as u64 && run.stopped() {
                return;
            }
            let mut rem = idx;
            let mut len = 0u32;
            loop {
                let c = 7u64.pow(len);
                if rem < c {
                    break;
                }
                rem -= c;
                len += 1;
            }
            let table = &reps[(idx / n as u64 % 16) as usize];
            let mut s = String::new();
            for k in 0..len {
                let g = GROUPS[(rem % 7) as usize];
                rem /= 7;
                h = h.wrapping_mul(6364136223846793005).wrapping_add(k as u64 + 1442695040888963407);
                let class = g[((h >> 33) % g.len() as u64) as usize];
                s.push(table[class as usize]);
            }
            l.cases += 1;
            let p = profs[(idx % 2) as usize];
            if check(run, p, &s, l).is_err() {
                report(run, p, &s);
                return;
            }
            idx += n as u64;
        }
    });

    // (b) battery over every assigned code point
    run.par("per_code_point_battery", true, |tid, n, l| {
        let d = db();
        let mut cp = tid as u32;
        while cp < 0x110000 {
            if d.u16.listed[cp as usize] {
                if let Some(c) = char::from_u32(cp) {
                    if cp % 4096 == 0 && run.stopped() {
                        return;
                    }
                    for t in 0..6 {
                        let s = match t {
                            0 => format!("{c}"),
                            1 => format!("a{c}"),
                            2 => format!("\u{5d0}{c}"),
                            3 => format!("\u{5d0}\u{661}{c}"),
                            4 => format!("\u{5d0}1{c}"),
                            _ => format!("\u{5d0}{c}\u{5d1}"),
                        };
                        l.cases += 1;
                        let p = profs[(t % 2) as usize];
                        if check(run, p, &s, l).is_err() {
                            report(run, p, &s);
                            return;
                        }
                    }
                }
            }
            cp += n as u32;
        }
    });

    super::pipe::stress(run, "alignment_and_runs", &["\u{5d0}", "\u{5d0}1", "\u{661}", "\u{5b8}", "\u{627}\u{661}", "1\u{5d0}", "-"], &|s, l| {
        for p in profs {
            if check(run, p, s, l).is_err() {
                report(run, p, s);
                return false;
            }
        }
        true
    });
    // plane aliases: every assigned supplementary code point next to the BMP code point with the same low 16 bits (and the
    // code point one plane up), in both orders and inside an RTL frame
    run.par("plane_alias_battery", true, |tid, n, l| {
        let d = db();
        let mut cp = 0x10000 + tid as u32;
        while cp < 0x110000 {
            if d.u16.listed[cp as usize] {
                if let Some(c) = char::from_u32(cp) {
                    for other in [cp & 0xffff, cp ^ 0x10000, (cp & 0xffff) | 0x20000] {
                        let Some(o) = char::from_u32(other) else { continue };
                        if other == cp || !d.u16.listed[other as usize] {
                            continue;
                        }
                        for (t, s) in [format!("{o}{c}"), format!("{c}{o}"), format!("{o}{c}_"), format!("\u{5d0}{o}{c}"), format!("a{c}{o}1")].into_iter().enumerate() {
                            l.cases += 1;
                            let p = profs[t % 2];
                            if check(run, p, &s, l).is_err() {
                                report(run, p, &s);
                                return;
                            }
                        }
                    }
                }
            }
            cp += n as u32;
        }
    });
    // adjacent code points (c, c+1) in both orders inside RTL and LTR frames (table-run caches with off-by-one bounds)
    run.par("adjacent_code_point_pairs", true, |tid, n, l| {
        let d = db();
        let mut cp = tid as u32;
        while cp + 1 < 0x110000 {
            if d.u16.listed[cp as usize] && d.u16.listed[cp as usize + 1] {
                if let (Some(a), Some(b)) = (char::from_u32(cp), char::from_u32(cp + 1)) {
                    for (t, s) in [format!("\u{5d0}{a}{b}"), format!("a{a}{b}"), format!("\u{5d0}{b}{a}"), format!("a{b}{a}1"), format!("{a}{b}"), format!("\u{627}{a}{b}\u{661}")].into_iter().enumerate() {
                        l.cases += 1;
                        let p = profs[t % 2];
                        if check(run, p, &s, l).is_err() {
                            report(run, p, &s);
                            return;
                        }
                    }
                }
            }
            cp += n as u32;
        }
    });
    // exact run lengths of every class (counters that wrap), inside RTL and LTR labels
    run.par("class_runs_exact_counts", true, |tid, n, l| {
        let reps = reps_for("class_runs_exact_counts", tid);
        let table = &reps[0];
        for cl in 0..23usize {
            if cl % n != tid {
                continue;
            }
            for count in [254usize, 255, 256, 257, 511, 512, 513, 65535, 65536, 65537] {
                let run_s: String = std::iter::repeat(table[cl]).take(count).collect();
                for (pre, post) in [("\u{5d0}", "\u{661}"), ("\u{5d0}", "1"), ("\u{5d0}", "\u{5d1}"), ("\u{5d0}", ""), ("a", "b"), ("a", "\u{5d0}"), ("\u{5d0}1", "\u{661}"), ("\u{627}\u{661}", "7")] {
                    let s = format!("{pre}{run_s}{post}");
                    l.cases += 1;
                    for p in profs {
                        if check(run, p, &s, l).is_err() {
                            // report unshrunk: deleting characters changes the count that matters
                            if let Err(v) = check(run, p, &s, &mut Local::scratch()) {
                                run.violate(v);
                            }
                            return;
                        }
                    }
                }
            }
        }
    });
    // every assigned code point behind LTR / RTL prefixes of 7..65 characters (byte-block fast paths)
    run.par("per_code_point_long_prefix", true, |tid, n, l| {
        let d = db();
        let ks = [7usize, 8, 9, 15, 16, 17, 31, 32, 33, 63, 64, 65];
        let lpre: Vec<String> = ks.iter().map(|k| "a".repeat(*k)).collect();
        let rpre: Vec<String> = ks.iter().map(|k| "\u{5d0}".repeat(*k)).collect();
        let mut cp = tid as u32;
        while cp < 0x110000 {
            if d.u16.listed[cp as usize] {
                if let Some(c) = char::from_u32(cp) {
                    if cp % 4096 == 0 && run.stopped() {
                        return;
                    }
                    for (i, pre) in lpre.iter().chain(rpre.iter()).enumerate() {
                        let s = if i % 3 == 0 { format!("{pre}{c}z") } else { format!("{pre}{c}") };
                        l.cases += 1;
                        let p = profs[i % 2];
                        if check(run, p, &s, l).is_err() {
                            report(run, p, &s);
                            return;
                        }
                    }
                }
            }
            cp += n as u32;
        }
    });
    // all permutations of one representative of each class an RTL label may contain (R AL AN EN ES CS ET ON BN NSM; thorough: plus L), and of
    // the classes an LTR label may contain: state that depends on how many distinct classes were seen before another one arrives
    for (name, classes) in [("class_permutations_rtl", run.pick(vec![1u8, 2, 6, 3, 4, 7, 5, 13, 9, 8], vec![1u8, 2, 6, 3, 4, 7, 5, 13, 9, 8, 0])), ("class_permutations_ltr", vec![0u8, 3, 4, 7, 5, 13, 9, 8])] {
        let k = classes.len();
        let total: u64 = (1..=k as u64).product();
        let classes = &classes;
        run.par(name, true, |tid, n, l| {
            let reps = reps_for(name, tid);
            let mut idx = tid as u64;
            while idx < total {
                if idx % 4096 < n as u64 && run.stopped() {
                    return;
                }
                // factoradic decoding of the idx-th permutation
                let mut pool: Vec<u8> = classes.clone();
                let mut rem = idx;
                let table = &reps[(idx / n as u64 % 16) as usize];
                let mut s = String::new();
                for i in (1..=k as u64).rev() {
                    let j = (rem % i) as usize;
                    rem /= i;
                    s.push(table[pool.remove(j) as usize]);
                }
                l.cases += 1;
                for p in profs {
                    if check(run, p, &s, l).is_err() {
                        report(run, p, &s);
                        return;
                    }
                }
                idx += n as u64;
            }
        });
    }
    // many DISTINCT characters of mixed classes, then repeats of earlier ones (per-call class memo with broken replacement)
    {
        let d = db();
        let of_class = |names: &[&str], max: usize| -> Vec<char> {
            let idx: Vec<u8> = names.iter().map(|n| ucd::bidi_idx(n)).collect();
            (0x21u32..0x3000).filter(|cp| d.u16.listed[*cp as usize] && idx.contains(&d.u16.bidi[*cp as usize])).filter_map(char::from_u32).take(max).collect()
        };
        let r = of_class(&["R"], 120);
        let al = of_class(&["AL"], 120);
        let neutral = of_class(&["ON", "ES", "CS", "ET"], 120);
        let en = of_class(&["EN"], 30);
        let an = of_class(&["AN"], 30);
        let nsm = of_class(&["NSM"], 60);
        let mut all = Vec::new();
        for mix in [vec![&r[..], &neutral[..]], vec![&r[..], &neutral[..], &en[..]], vec![&al[..], &an[..], &neutral[..]], vec![&r[..], &al[..], &nsm[..]], vec![&r[..], &r[..], &r[..], &neutral[..]], vec![&al[..]], vec![&r[..], &en[..], &al[..], &neutral[..], &nsm[..]]] {
            let pool = super::pipe::interleave(&mix, 200);
            all.extend(super::pipe::distinct_runs_with_repeats(&pool, ""));
        }
        super::pipe::battery(run, "distinct_mixed_runs_with_repeats", &all, &|s, l| {
            for p in profs {
                if check(run, p, s, l).is_err() {
                    report(run, p, s);
                    return false;
                }
            }
            true
        });
    }
    // (c) random
    let mk = || {
        let by = &crate::gens::pools().by_bidi16;
        let class_pick = prop_oneof![
            20 => Just(0usize), 20 => Just(1), 12 => Just(2), 10 => Just(6), 10 => Just(3), 10 => Just(8), 3 => Just(4), 3 => Just(7), 3 => Just(5), 3 => Just(13), 3 => Just(9),
            3 => 10usize..23
        ];
        let ch = (class_pick, 0u32..=u32::MAX, any::<bool>()).prop_map(move |(cl, r, full)| {
            let m: &Vec<char> = if full || by[cl].is_empty() { &members()[cl] } else { &by[cl] };
            m[((r as u64 * m.len() as u64) >> 32) as usize]
        });
        (prop_oneof![8 => vec(ch.clone(), 0..=8), 2 => vec(ch.clone(), 0..=24), 1 => vec(ch, 0..=120)], 0..2usize)
    };
    run.prop("random", run.pick(1_500_000, 60_000_000), mk, |(cs, pi), l| {
        let s: String = cs.iter().collect();
        check(run, profs[*pi], &s, l)
    });
}

pub fn replay(run: &Run, case: &Value) -> Check {
    let p = Prof::from_name(case["profile"].as_str().unwrap()).expect("profile");
    let s = jget_str(case, "input").unwrap();
    check(run, p, &s, &mut Local::default())
}
