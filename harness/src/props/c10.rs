//! C10 — case mapping lowercases every character, wherever it stands
use crate::engine::*;
use crate::gens::{self, pools};
use crate::model::*;
use proptest::collection::vec;
use proptest::prelude::*;
use serde_json::{json, Value};

fn case_json(p: Prof, s: &str) -> Value {
    json!({"op": "case_mapping_rule", "profile": p.name(), "input": jstr(s)})
}

fn has_mapping(c: char) -> bool {
    let mut it = c.to_lowercase();
    !(it.next() == Some(c) && it.next().is_none())
}

pub fn check(p: Prof, s: &str, l: &mut Local) -> Check {
    let expected = ref_lower(s);
    l.eval();
    let got = match guard(|| imp_rule(p, RuleKind::Case, s)) {
        Ok(g) => g,
        Err(pn) => return Err(Violation::new(case_json(p, s), format!("Ok(\"{}\")", esc(&expected)), format!("panic: {pn}"))),
    };
    if got != Ok(expected.clone()) {
        return Err(Violation::new(case_json(p, s), format!("Ok(\"{}\")", esc(&expected)), fmt_res(&got)));
    }
    // the same call with an owned argument (spare capacity) must give the same content
    l.eval();
    let owned = guard(|| imp_rule_owned(p, RuleKind::Case, s)).unwrap_or_else(|pn| Ok(format!("panic: {pn}")));
    if owned != got {
        return Err(Violation::new(case_json(p, s), format!("owned argument gives the same result: {}", fmt_res(&got)), fmt_res(&owned)));
    }
    // non-trivial: a character with a lowercase mapping that no is_uppercase character precedes
    let mut upper_seen = false;
    let mut nt = false;
    for c in s.chars() {
        if has_mapping(c) && !upper_seen {
            nt = true;
            if !c.is_uppercase() {
                l.label("mapped_char_not_is_uppercase_first");
            }
            break;
        }
        if c.is_uppercase() {
            upper_seen = true;
        }
    }
    if expected != s {
        l.label("changed");
    }
    if nt {
        l.nt(hash64(&(p, s)));
        if l.want_sample() {
            l.sample(json!({"profile": p.name(), "input": esc(s), "output": esc(&expected)}));
        }
    }
    Ok(())
}

fn report(run: &Run, p: Prof, s: &str) {
    let fails = |c: &[char]| {
        let t: String = c.iter().collect();
        let mut sc = Local::default();
        sc.frozen = true;
        check(p, &t, &mut sc).is_err()
    };
    let t: String = shrink_chars(s.chars().collect(), &fails).iter().collect();
    let mut sc = Local::default();
    sc.frozen = true;
    if let Err(v) = check(p, &t, &mut sc) {
        run.violate(v);
    } else if let Err(v) = check(p, s, &mut Local::scratch()) {
        // the shrunk copy (a freshly allocated String) passes: the failure depends on the argument as it was handed over (e.g. the
        // address of a &str view); reported as found
        run.violate(v);
    }
}

pub fn run(run: &Run) {
    run.set_rule(
        "Generator: (a) every Unicode scalar value c in the 9 contexts c, xc, Xc, cx, cX, U+01C5 c, c U+10400, behind 17 two-byte letters, behind 93 mixed-width characters + X (uncased / uppercase / \
         titlecase / 4-byte neighbours before and after), all ordered pairs of the ~1400 characters that have a lowercase mapping in 3 templates; every ASCII and cased-pool character at every alignment 0..=72; \
         every scalar behind prefixes of 7..65 ASCII letters; (b) proptest strings from a case-heavy pool (upper, lower, titlecase, \
         Other_Uppercase, expanding mappings, Cherokee, Deseret, Adlam) mixed with general characters; through \
         Rules::case_mapping_rule of UsernameCaseMapped and Nickname. Oracle: concatenation of char::to_lowercase per character. \
         Non-trivial: the string contains a character that has a lowercase mapping different from itself and no is_uppercase \
         character stands before it (the case a fast path keyed on is_uppercase gets wrong) or any mapped character first; \
         distinct = distinct (profile,input). Plus the deterministic long-input / call-order batteries of DESIGN.md 8.1 and 8.2 that apply to this property (extreme scale, mark neighbours, distinct runs with repeats, environment children, thread lifetime, concurrent distinct inputs; alignment sweeps 0..72 and around 128..65536 bytes, runs and exact counts, sandwiches and multi-megabyte inputs, exhaustive pair sets, plane/byte aliases, hash-colliding pairs back to back, owned arguments with spare capacity); each battery is a finite list enumerated completely and appears as its own section in 'sections'.",
    );
    run.assume("char::to_lowercase of the toolchain's std is the untailored full lowercase mapping the README documents (same std as the library: no version skew)");
    let profs = [Prof::UserMapped, Prof::Nick];
    let pad_a = gens::pad(1, 5); // 17 two-byte lowercase letters
    let pad_b = format!("{}X", gens::pad(5, 7)); // 93 mixed-width characters, then an uppercase letter
    let (pad_a, pad_b) = (&pad_a, &pad_b);
    run.par("all_scalars_in_9_contexts", true, |tid, n, l| {
        let mut cp = tid as u32;
        while cp < 0x110000 {
            if let Some(c) = char::from_u32(cp) {
                if cp % 8192 == 0 && run.stopped() {
                    return;
                }
                for t in 0..9 {
                    let s = match t {
                        7 => format!("{}{c}", pad_a),
                        8 => format!("{}{c}x", pad_b),
                        0 => format!("{c}"),
                        1 => format!("x{c}"),
                        2 => format!("X{c}"),
                        3 => format!("{c}x"),
                        4 => format!("{c}X"),
                        5 => format!("\u{1c5}{c}"),
                        _ => format!("{c}\u{10400}"),
                    };
                    l.cases += 1;
                    for p in profs {
                        if check(p, &s, l).is_err() {
                            report(run, p, &s);
                            return;
                        }
                    }
                }
            }
            cp += n as u32;
        }
    });
    // every scalar value behind ASCII prefixes whose length puts it on / next to 8, 16, 32 and 64-byte block boundaries
    run.par("all_scalars_long_prefix", true, |tid, n, l| {
        let pres: Vec<String> = [7usize, 8, 15, 16, 17, 31, 32, 33, 63, 64, 65].iter().map(|k| "a".repeat(*k)).collect();
        let mut cp = tid as u32;
        while cp < 0x110000 {
            if let Some(c) = char::from_u32(cp) {
                if cp % 8192 == 0 && run.stopped() {
                    return;
                }
                for (i, pre) in pres.iter().enumerate() {
                    let s = if i % 2 == 0 { format!("{pre}{c}") } else { format!("{pre}{c} z") };
                    l.cases += 1;
                    let p = profs[(cp as usize + i) % 2];
                    if check(p, &s, l).is_err() {
                        report(run, p, &s);
                        return;
                    }
                }
            }
            cp += n as u32;
        }
    });
    {
        // one thread, in order: the point is what a call leaves behind for the next one
        let big = super::pipe::multi_megabyte_strings(&super::pipe::PAYLOADS_USER);
        run.par("multi_megabyte_then_small", true, |tid, _n, l| {
            if tid != 0 {
                return;
            }
            for s in &big {
                for p in profs {
                    l.cases += 1;
                    if let Err(mut v) = check(p, s, l) {
                        v.case = json!({"op": "huge_input_sequence", "profile": p.name(), "failing_input_bytes": s.len(), "note": "multi_megabyte_strings() in order on one thread"});
                        v.expected.truncate(200);
                        v.observed.truncate(200);
                        run.violate(v);
                        return;
                    }
                }
            }
        });
    }
    super::pipe::collisions(run, "fingerprint_collisions", &|s, l| profs.iter().all(|p| match check(*p, s, l) {
        Ok(()) => true,
        Err(v) => {
            run.violate(v);
            false
        }
    }));
    super::pipe::pointer_offset_sweep(run, &["A", "Z", "\u{c9}", "\u{3a3}", "\u{130}", "\u{212a}", "\u{10400}", "\u{1c5}", "aB", "\u{e9}X"], &|s, l| {
        for p in profs {
            check(p, s, l)?;
        }
        Ok(())
    });
    super::pipe::stress(run, "alignment_and_runs", &super::pipe::PAYLOADS_USER, &|s, l| {
        for p in profs {
            if check(p, s, l).is_err() {
                report(run, p, s);
                return false;
            }
        }
        true
    });
    // every ASCII character and every character of the cased pool at every alignment 0..=72 behind lower-case ASCII
    run.par("ascii_and_cased_at_every_alignment", true, |tid, n, l| {
        let mut chars: Vec<char> = (0u8..128).map(|b| b as char).collect();
        chars.extend(pools().cased.iter().copied());
        for (i, c) in chars.iter().enumerate() {
            if i % n != tid {
                continue;
            }
            for k in 0..=72usize {
                for tail in ["", "zzzzzzzzzzzzzzzzzzzzzzzzzzzzzzzzzzzz"] {
                    let s = format!("{}{c}{tail}", "a".repeat(k));
                    l.cases += 1;
                    for p in profs {
                        if check(p, &s, l).is_err() {
                            report(run, p, &s);
                            return;
                        }
                    }
                }
            }
        }
    });
    // characters whose lowercase mapping is LONGER in UTF-8 than the character, at every offset around 4 KiB .. 64 KiB after the
    // first mapped character (output staged in fixed-size buffers)
    run.par("growing_mappings_at_buffer_edges", true, |tid, n, l| {
        let growing: Vec<char> = pools().cased_all.iter().copied().filter(|c| c.to_lowercase().map(|x| x.len_utf8()).sum::<usize>() > c.len_utf8()).collect();
        let mut idx = 0usize;
        for g in growing.iter().take(24) {
            for (lo, hi) in [(4086usize, 4100usize), (8180, 8196), (16376, 16390), (32762, 32772), (65530, 65540)] {
                for k in lo..=hi {
                    idx += 1;
                    if idx % n != tid {
                        continue;
                    }
                    for s in [format!("A{}{g}", "a".repeat(k)), format!("A{}{g}{g}z", "a".repeat(k)), format!("\u{c9}{}{g}", "a".repeat(k))] {
                        l.cases += 1;
                        let p = profs[idx % 2];
                        if check(p, &s, l).is_err() {
                            // report without shrinking: the filler length is the point
                            if let Err(mut v) = check(p, &s, &mut Local::scratch()) {
                                v.case = json!({"op": "case_mapping_rule", "profile": p.name(), "input": jstr(&s)});
                                v.expected.truncate(120);
                                v.observed.truncate(300);
                                run.violate(v);
                            }
                            return;
                        }
                    }
                }
            }
        }
    });
    // n DISTINCT characters with a lowercase mapping followed by repeats of earlier ones (per-call memo tables)
    run.par("distinct_cased_runs_with_repeats", true, |tid, n, l| {
        let ca = &pools().cased_all;
        let mut idx = 0usize;
        for start in (0..ca.len().saturating_sub(130)).step_by(23) {
            for len in [7usize, 8, 9, 15, 16, 17, 31, 32, 33, 34, 63, 64, 65, 66, 100, 127, 128, 129] {
                idx += 1;
                if idx % n != tid {
                    continue;
                }
                let run_s: String = ca[start..start + len].iter().collect();
                for (a, b) in [(0usize, 1usize), (len - 1, 0), (len / 2, len / 2), (1, len - 2)] {
                    let s = format!("{run_s}{}{}{}", ca[start + len], ca[start + a], ca[start + b]);
                    l.cases += 1;
                    for p in profs {
                        if check(p, &s, l).is_err() {
                            report(run, p, &s);
                            return;
                        }
                    }
                }
            }
        }
    });
    // runs of 1..=80 capitals of several scripts ending in SIGMA / other context-sensitive letters
    run.par("capital_runs", true, |tid, n, l| {
        let mut idx = 0usize;
        for x in ['A', 'Z', '\u{391}', '\u{3a3}', '\u{414}', '\u{10400}', '\u{130}', '\u{1c5}'] {
            for len in 0..=80usize {
                for end in ["\u{3a3}", "\u{3a3}1", "\u{3a3}a", "\u{3a3}\u{3a3}", "\u{130}", "I\u{307}", "\u{3a3} \u{3a3}"] {
                    idx += 1;
                    if idx % n != tid {
                        continue;
                    }
                    let s = format!("{}{end}", x.to_string().repeat(len));
                    l.cases += 1;
                    for p in profs {
                        if check(p, &s, l).is_err() {
                            report(run, p, &s);
                            return;
                        }
                    }
                }
            }
        }
    });
    // long runs of mapped characters (around 255..65536) with ONE mapping that changes the UTF-8 length at the start / in the middle / at
    // the end, followed by a few more capitals (batched rewriting with a running length correction)
    run.par("long_mapped_runs_with_length_change", true, |tid, n, l| {
        let mut idx = 0usize;
        for len in [254usize, 255, 256, 257, 511, 512, 513, 1022, 1023, 1024, 1025, 2047, 2048, 2049, 4095, 4096, 4097, 16383, 16384, 65535, 65536, 65537] {
            for changer in ['\u{212a}', '\u{1e9e}', '\u{130}', '\u{23a}', '\u{2126}', '\u{10400}'] {
                for unit in ['A', 'X', '\u{391}', '\u{414}'] {
                    idx += 1;
                    if idx % n != tid || (len > 5000 && unit != 'A') {
                        continue;
                    }
                    let run_s: String = std::iter::repeat(unit).take(len).collect();
                    let half: String = std::iter::repeat(unit).take(len / 2).collect();
                    for s in [format!("{changer}{run_s}BCD"), format!("{half}{changer}{half}YZ"), format!("{run_s}{changer}BCD"), format!("{changer}{run_s}{changer}{run_s}Q")] {
                        l.cases += 1;
                        for p in profs {
                            if check(p, &s, l).is_err() {
                                report(run, p, &s);
                                return;
                            }
                        }
                    }
                }
            }
        }
    });
    // all ordered pairs of characters that have a lowercase mapping (output-size estimates, growing/shrinking mappings)
    run.par("all_pairs_of_cased_characters", true, |tid, n, l| {
        let ca = &pools().cased_all;
        for (i, a) in ca.iter().enumerate() {
            if i % n != tid {
                continue;
            }
            if run.stopped() {
                return;
            }
            for b in ca.iter() {
                for t in 0..3 {
                    let s = match t {
                        0 => format!("{a}{b}"),
                        1 => format!("{a}{b}a"),
                        _ => format!("x{a}{a}{b}"),
                    };
                    l.cases += 1;
                    let p = profs[t % 2];
                    if check(p, &s, l).is_err() {
                        report(run, p, &s);
                        return;
                    }
                }
            }
        }
    });
    let mk = || {
        let ch = prop_oneof![45 => gens::pick(&pools().cased), 25 => gens::pick(&pools().simple), 20 => gens::pick(&pools().general), 10 => gens::gchar()];
        (gens::padded(prop_oneof![9 => vec(ch.clone(), 0..=12), 1 => vec(ch, 0..=120)].prop_map(gens::s_of).boxed()), 0..2usize)
    };
    // the mapping is untailored: the same case-mapping calls in child processes started under ~50 environments (Turkish, Azeri, Lithuanian,
    // Greek, C/POSIX locales in LC_ALL / LC_CTYPE / LANG / LANGUAGE, cleared environment) against the reference mapping
    {
        let envs = super::envchild::environments();
        let bat = super::envchild::battery();
        let (envs, bat) = (&envs, &bat);
        run.par("environment_children", true, |tid, n, l| {
            for (i, (clear, vars)) in envs.iter().enumerate() {
                if i % n != tid {
                    continue;
                }
                l.cases += 1;
                if let Err(v) = super::envchild::check_env(*clear, vars, &|k| env_expect(k, bat), l) {
                    run.violate(v);
                    return;
                }
            }
        });
    }
    run.prop("random", run.pick(2_000_000, 60_000_000), mk, |(s, pi), l| check(profs[*pi], s, l));
}

/// expected line of battery call i: only the case-mapping calls, against the reference mapping
fn env_expect(i: usize, bat: &[(Prof, u8, String, String)]) -> Option<String> {
    let (_, k, a, _) = &bat[i];
    if *k == 3 {
        Some(fmt_res(&Ok(ref_lower(a))))
    } else {
        None
    }
}

pub fn replay(_run: &Run, case: &Value) -> Check {
    if case.get("op").and_then(|o| o.as_str()) == Some("environment") {
        let bat = super::envchild::battery();
        return super::envchild::replay_env(case, &|k| env_expect(k, &bat));
    }
    let p = Prof::from_name(case.get("profile").and_then(|p| p.as_str()).unwrap_or("")).expect("profile");
    if case.get("op").and_then(|o| o.as_str()) == Some("huge_input_sequence") {
        let mut l = Local::default();
        for s in super::pipe::multi_megabyte_strings(&super::pipe::PAYLOADS_USER) {
            check(p, &s, &mut l)?;
        }
        return Ok(());
    }
    let s = jget_str(case, "input").expect("input");
    check(p, &s, &mut Local::default())
}
