//! C01 — every public operation returns; no input can make it panic
use crate::engine::*;
use crate::gens;
use crate::model::*;
use precis_core::context::get_context_rule;
use precis_core::profile::{stabilize, PrecisFastInvocation, Profile};
use precis_core::{Codepoints, Error, FreeformClass, IdentifierClass, StringClass};
use precis_profiles::{Nickname, OpaqueString, UsernameCaseMapped, UsernameCasePreserved};
use proptest::prelude::*;
use serde_json::{json, Value};
use std::borrow::Cow;

fn breadcrumb(case: &Value) {
    if let Ok(p) = std::env::var("PV_BREADCRUMB") {
        let _ = std::fs::write(p, json!({"property": "C01", "case": case}).to_string());
    }
}

/// an owned copy with spare capacity
fn roomy(a: &str) -> String {
    let mut s = String::with_capacity(a.len() + 9 + a.len() / 2);
    s.push_str(a);
    s
}

fn touch_err(e: &Error, sink: &mut usize) {
    *sink += format!("{e}").len() + format!("{e:?}").len();
}
fn touch<'a>(r: Result<Cow<'a, str>, Error>, sink: &mut usize) {
    match r {
        Ok(s) => {
            // a String/str is valid UTF-8 by construction; re-validate the bytes anyway (catches unchecked slicing)
            assert!(std::str::from_utf8(s.as_bytes()).is_ok(), "result is not valid UTF-8");
            *sink += s.len();
        }
        Err(e) => touch_err(&e, sink),
    }
}
fn touchb(r: Result<bool, Error>, sink: &mut usize) {
    match r {
        Ok(b) => *sink += b as usize,
        Err(e) => touch_err(&e, sink),
    }
}

macro_rules! all_profile_ops {
    ($t:ty, $s:expr, $t2:expr, $sink:expr, $n:expr) => {{
        use precis_core::profile::Rules;
        let p = <$t>::new();
        touch(p.width_mapping_rule($s), $sink);
        touch(p.additional_mapping_rule($s), $sink);
        touch(p.case_mapping_rule($s), $sink);
        touch(p.normalization_rule($s), $sink);
        touch(p.directionality_rule($s), $sink);
        touch(p.prepare($s), $sink);
        touch(p.enforce($s), $sink);
        touch(p.enforce($s.to_string()), $sink);
        touch(p.enforce(roomy($s)), $sink);
        touch(p.prepare(std::borrow::Cow::<str>::Owned(roomy($s))), $sink);
        touch(p.width_mapping_rule(roomy($s)), $sink);
        touch(p.additional_mapping_rule(roomy($s)), $sink);
        touch(p.case_mapping_rule(roomy($s)), $sink);
        touch(p.normalization_rule(roomy($s)), $sink);
        touchb(p.compare($s, $t2), $sink);
        touchb(p.compare($t2, $s), $sink);
        touch(<$t as PrecisFastInvocation>::prepare($s), $sink);
        touch(<$t as PrecisFastInvocation>::enforce($s), $sink);
        touchb(<$t as PrecisFastInvocation>::compare($s, $t2), $sink);
        $n += 19;
    }};
}

/// push one string (and a partner for compare) through every public operation; returns the number of calls
fn all_ops(s: &str, t: &str, offsets: &[usize]) -> u64 {
    let mut sink = 0usize;
    let mut n = 0u64;
    let idc = IdentifierClass::default();
    let ffc = FreeformClass::default();
    if let Err(e) = idc.allows(s) {
        touch_err(&e, &mut sink);
    }
    if let Err(e) = ffc.allows(s) {
        touch_err(&e, &mut sink);
    }
    n += 2;
    for c in s.chars() {
        sink += idc.get_value_from_char(c) as usize + ffc.get_value_from_char(c) as usize;
        sink += idc.get_value_from_codepoint(c as u32) as usize + ffc.get_value_from_codepoint(c as u32) as usize;
        sink += format!("{}", idc.get_value_from_char(c)).len();
        n += 4;
        if let Some(rule) = get_context_rule(c as u32) {
            for off in offsets {
                sink += rule(s, *off).is_ok() as usize;
                n += 1;
            }
        }
    }
    for r in ALL_RULES {
        for off in offsets {
            let res = (r.imp())(s, *off);
            sink += format!("{res:?}").len();
            n += 1;
        }
    }
    // stabilize with stock closures
    touch(stabilize(s, |x| Ok(Cow::Borrowed(x))), &mut sink);
    touch(stabilize(s.to_string(), |x| Ok(Cow::Owned(x.to_string()))), &mut sink);
    touch(stabilize(s, |x| if x.chars().count() < 3 { Ok(Cow::Owned(format!("{x}é"))) } else { Ok(Cow::Borrowed(x)) }), &mut sink);
    touch(stabilize(s, |_| Err(Error::Invalid)), &mut sink);
    touch(stabilize(s, |x| Ok(Cow::Owned(x.chars().rev().collect()))), &mut sink);
    touch(stabilize(Cow::Borrowed(s), |x| Ok(Cow::Owned(format!("{x}𝄞")))), &mut sink);
    touch(stabilize(s, |x| Nickname::new().enforce(x)), &mut sink);
    n += 7;
    all_profile_ops!(UsernameCaseMapped, s, t, &mut sink, n);
    all_profile_ops!(UsernameCasePreserved, s, t, &mut sink, n);
    all_profile_ops!(OpaqueString, s, t, &mut sink, n);
    all_profile_ops!(Nickname, s, t, &mut sink, n);
    std::hint::black_box(sink);
    n
}

fn offsets_for(len: usize) -> Vec<usize> {
    let mut v: Vec<usize> = (0..=len + 2).collect();
    v.extend([usize::MAX, usize::MAX - 1, usize::MAX / 2, 1usize << 32, (1usize << 31) - 1]);
    // aliases of in-label positions modulo 2^8 .. 2^63
    for p in 0..=len {
        for sh in [8u32, 16, 31, 32, 63] {
            v.push(p.wrapping_add(1usize << sh));
        }
    }
    v
}

pub fn check_string(s: &str, t: &str, l: &mut Local) -> Check {
    let case = json!({"op": "all_ops", "s": jstr(s), "t": jstr(t)});
    breadcrumb(&case);
    let len = s.chars().count();
    let offs = if len <= 12 { offsets_for(len) } else { vec![0, 1, len / 2, len - 1, len, len + 1, usize::MAX] };
    match guard(|| all_ops(s, t, &offs)) {
        Ok(n) => {
            l.evals_n(n);
            if len >= 2 && s.chars().any(|c| c.len_utf8() > 1) {
                l.nt(hash64(&(s, t)));
                l.label("multibyte_string");
                if l.want_sample() {
                    l.sample(json!({"s": esc(s), "t": esc(t), "calls": n}));
                }
            } else {
                l.label("ascii_or_short");
            }
            Ok(())
        }
        Err(p) => Err(Violation::new(case, "every public operation returns Ok or a typed error", format!("panic: {p}"))),
    }
}

pub fn check_numbers(cp: u32, off: usize, l: &mut Local) -> Check {
    let case = json!({"op": "numeric_args", "cp": cp, "offset": off as u64});
    breadcrumb(&case);
    let r = guard(|| {
        let mut sink = 0usize;
        sink += IdentifierClass::default().get_value_from_codepoint(cp) as usize;
        sink += FreeformClass::default().get_value_from_codepoint(cp) as usize;
        if let Some(rule) = get_context_rule(cp) {
            sink += rule("a\u{200d}é", off).is_ok() as usize;
            sink += rule("", off).is_ok() as usize;
        }
        for r in ALL_RULES {
            for lab in ["", "\u{200c}", "é\u{200d}𝄞", "l\u{b7}l", "\u{660}\u{6f0}", "\u{30fb}"] {
                sink += (r.imp())(lab, off).is_ok() as usize;
            }
        }
        for e in [Codepoints::Single(cp), Codepoints::Range(cp..=cp), Codepoints::Range(0..=cp), Codepoints::Range(cp..=u32::MAX)] {
            sink += (e.partial_cmp(&cp).is_some() as usize) + (cp.partial_cmp(&e).is_some() as usize) + (e == cp) as usize + (e < cp) as usize + (e >= cp) as usize;
            sink += format!("{e}").len();
            sink += (e.partial_cmp(&(off as u32)).is_some()) as usize;
        }
        std::hint::black_box(sink);
    });
    l.evals_n(2 + 48 + 4 * 7);
    match r {
        Ok(()) => {
            if cp > 0x10ffff || (0xd800..0xe000).contains(&cp) || off > 16 {
                l.nt(hash64(&(cp, off)));
                l.label("non_scalar_or_far_offset");
            }
            Ok(())
        }
        Err(p) => Err(Violation::new(case, "returns", format!("panic: {p}"))),
    }
}

const SIGMA1: [u32; 40] = [
    0x61, 0x20, 0x41, 0xa0, 0xe9, 0xdf, 0x3a3, 0x130, 0x1c5, 0x2003, 0x3000, 0x1680, 0xff21, 0xff01, 0xff76, 0x200c, 0x200d, 0x94d, 0xb7, 0x375, 0x5f3, 0x30fb, 0x627, 0x64e,
    // beyond the quick alphabet
    0x660, 0x6f0, 0x5d0, 0x5b8, 0x1100, 0x1d11e, 0x10400, 0x1e2ae, 0x378, 0xfffe, 0x6c, 0x3b1, 0x3042, 0xa8, 0x13a0, 0xfb01,
];

pub fn run(run: &Run) {
    run.set_rule(
        "Generator: (a) all strings of length 0..=L over an alphabet of A characters (A=24, L=4 quick; A=40, L=4 thorough) with 1-4-byte characters of every role \
         the code branches on; (b) proptest strings from the shared pool (lengths to 300) with a second string for compare; (c) numeric arguments: u32 code \
         points (all surrogates, 0x10FFFE.., 0x110000, 2^31+-1, u32::MAX, random above-range) and usize offsets (0..len+2, usize::MAX, huge). Each input goes \
         through EVERY public operation (allows and classification of both classes, the 8 context rules and registered rules at every offset, stabilize with 7 \
         closures, the 5 Rules methods x 4 profiles, prepare/enforce/compare through Profile and PrecisFastInvocation, Display/Debug of every error, \
         Codepoints comparisons) under catch_unwind with overflow checks on. Oracle: the call returns (no panic; returned text is valid UTF-8). Non-trivial: \
         string with >= 2 characters and a multi-byte character, or a non-scalar / out-of-range numeric argument; distinct = distinct input. Plus the deterministic long-input / call-order batteries of DESIGN.md 8.1 and 8.2 that apply to this property (extreme scale, mark neighbours, distinct runs with repeats, environment children, thread lifetime, concurrent distinct inputs; alignment sweeps 0..72 and around 128..65536 bytes, runs and exact counts, sandwiches and multi-megabyte inputs, exhaustive pair sets, plane/byte aliases, hash-colliding pairs back to back, owned arguments with spare capacity); each battery is a finite list enumerated completely and appears as its own section in 'sections'.",
    );
    run.assume("a hard crash (abort, stack overflow) kills the checker: ./check then re-runs single-threaded with a breadcrumb file to isolate the input and reports it as a violation");
    let (a, maxlen) = run.pick((24u64, 4u32), (40u64, 4u32));
    let mut total = 0u64;
    for len in 0..=maxlen {
        total += a.pow(len);
    }
    run.par("enum_sigma1", true, |tid, n, l| {
        let mut idx = tid as u64;
        while idx < total {
            if idx % 1024 < n as u64 && run.stopped() {
                return;
            }
            let mut rem = idx;
            let mut len = 0u32;
            loop {
                let c = a.pow(len);
                if rem < c {
                    break;
                }
                rem -= c;
                len += 1;
            }
            let mut s = String::new();
            for _ in 0..len {
                s.push(char::from_u32(SIGMA1[(rem % a) as usize]).unwrap());
                rem /= a;
            }
            let t: String = s.chars().rev().collect();
            l.cases += 1;
            if let Err(v) = check_string(&s, &t, l) {
                // shrink
                let fails = |c: &[char]| {
                    let x: String = c.iter().collect();
                    let y: String = c.iter().rev().collect();
                    check_string(&x, &y, &mut Local::scratch()).is_err()
                };
                let m: String = shrink_chars(s.chars().collect(), &fails).iter().collect();
                let mr: String = m.chars().rev().collect();
                run.violate(check_string(&m, &mr, &mut Local::scratch()).err().unwrap_or(v));
                return;
            }
            idx += n as u64;
        }
    });
    let pl: Vec<&str> = super::pipe::PAYLOADS_FAMILIES.iter().chain(super::pipe::PAYLOADS_SPACE.iter()).chain(super::pipe::PAYLOADS_FREE.iter()).chain(super::pipe::PAYLOADS_USER.iter()).copied().collect();
    super::pipe::stress(run, "alignment_and_runs", &pl, &|s, l| {
        let t: String = s.chars().rev().collect();
        match check_string(s, &t, l) {
            Ok(()) => true,
            Err(v) => {
                run.violate(v);
                false
            }
        }
    });
    // all ordered pairs of characters with a lowercase mapping through the operations that case-map (light: 4 calls per string)
    run.par("cased_pairs_light", true, |tid, n, l| {
        use precis_core::profile::Rules;
        let ca = &crate::gens::pools().cased_all;
        for (i, a) in ca.iter().enumerate() {
            if i % n != tid {
                continue;
            }
            if run.stopped() {
                return;
            }
            for b in ca.iter() {
                let s = format!("{a}{b}a");
                l.cases += 1;
                let r = guard(|| {
                    let mut sink = 0usize;
                    touch(UsernameCaseMapped::new().case_mapping_rule(s.as_str()), &mut sink);
                    touch(UsernameCaseMapped::new().enforce(s.as_str()), &mut sink);
                    touch(Nickname::new().case_mapping_rule(s.as_str()), &mut sink);
                    touchb(Nickname::new().compare(s.as_str(), "x"), &mut sink);
                    std::hint::black_box(sink);
                });
                l.evals_n(4);
                if let Err(p) = r {
                    run.violate(Violation::new(json!({"op": "all_ops", "s": jstr(&s), "t": jstr("x")}), "every public operation returns Ok or a typed error", format!("panic: {p}")));
                    return;
                }
            }
        }
    });
    {
        // very long transparent runs next to ZWNJ, labels beyond 2^20 code points, every mark class next to cased / compatibility /
        // decomposable characters: through the entry points that reach the rules (light: a handful of calls per string)
        use precis_core::profile::Rules;
        let extra: Vec<usize> = run.pick(vec![], vec![262_144]);
        let mut labels = super::pipe::zwnj_huge_run_labels(&extra);
        labels.extend(super::pipe::huge_whole_label_labels(&[]));
        let heavy = labels.len();
        for w in 0..3 {
            labels.extend(super::pipe::mark_neighbour_strings(w));
        }
        let labels_ref = &labels;
        run.par("huge_labels_and_mark_neighbours_light", true, |tid, n, l| {
            for (i, s) in labels_ref.iter().enumerate() {
                if i % n != tid {
                    continue;
                }
                if run.stopped() {
                    return;
                }
                l.cases += 1;
                let case = json!({"op": "all_ops", "s": jstr(s), "t": jstr("x")});
                breadcrumb(&case);
                let r = guard(|| {
                    let mut sink = 0usize;
                    if i < heavy {
                        // on a thread with the default stack size, as a caller's thread would have (the checker's own threads have 64 MiB)
                        let inner = std::thread::scope(|sc| {
                            std::thread::Builder::new()
                                .spawn_scoped(sc, || {
                                    let mut sink = 0usize;
                                    if let Some(z) = s.chars().position(|c| c == '\u{200c}') {
                                        sink += precis_core::context::rule_zero_width_nonjoiner(s, z).is_ok() as usize;
                                    }
                                    sink += IdentifierClass::default().allows(s).is_ok() as usize;
                                    touch(OpaqueString::new().prepare(s.as_str()), &mut sink);
                                    sink
                                })
                                .expect("spawn")
                                .join()
                        });
                        match inner {
                            Ok(n) => sink += n,
                            Err(e) => std::panic::resume_unwind(e),
                        }
                    } else {
                        touch(UsernameCaseMapped::new().enforce(s.as_str()), &mut sink);
                        touch(UsernameCasePreserved::new().enforce(s.as_str()), &mut sink);
                        touch(OpaqueString::new().enforce(s.as_str()), &mut sink);
                        touch(Nickname::new().enforce(s.as_str()), &mut sink);
                        touch(Nickname::new().case_mapping_rule(s.as_str()), &mut sink);
                        touchb(Nickname::new().compare(s.as_str(), "x"), &mut sink);
                        touchb(UsernameCaseMapped::new().compare(s.as_str(), "x"), &mut sink);
                    }
                    std::hint::black_box(sink);
                });
                l.evals_n(if i < heavy { 3 } else { 7 });
                if let Err(p) = r {
                    run.violate(Violation::new(case, "every public operation returns Ok or a typed error", format!("panic: {p}")));
                    return;
                }
            }
        });
    }
    run.prop("random_strings", run.pick(500_000, 30_000_000), || (gens::gstring(), gens::gstring()), |(s, t), l| check_string(s, t, l));
    run.par("numeric_boundaries", true, |tid, _n, l| {
        if tid != 0 {
            return;
        }
        let offs = [0usize, 1, 2, 3, 4, 5, usize::MAX, usize::MAX - 1, usize::MAX / 2, 1 << 32, (1 << 31) - 1, 1 << 31];
        let mut cps: Vec<u32> = (0xd7f0..0xe010).collect();
        cps.extend(0x10fff0..0x110010);
        cps.extend([0, 0x7f, 0x80, 0x7fffffff, 0x80000000, 0x80000001, u32::MAX, u32::MAX - 1, 0xb7, 0x200c, 0x200d, 0x375, 0x5f3, 0x5f4, 0x30fb, 0x660, 0x6f9]);
        for cp in cps {
            for off in offs {
                l.cases += 1;
                if let Err(v) = check_numbers(cp, off, l) {
                    run.violate(v);
                    return;
                }
            }
        }
    });
    run.prop("random_numbers", run.pick(300_000, 10_000_000), || (prop_oneof![2 => any::<u32>(), 2 => 0u32..0x110000, 1 => 0xd800u32..0xe000], prop_oneof![3 => 0usize..8, 1 => any::<usize>(), 1 => (usize::MAX - 8)..=usize::MAX]), |(cp, off), l| {
        check_numbers(*cp, *off, l)
    });
}

pub fn replay(_run: &Run, case: &Value) -> Check {
    let mut l = Local::default();
    match case["op"].as_str() {
        Some("numeric_args") => check_numbers(case["cp"].as_u64().unwrap() as u32, case["offset"].as_u64().unwrap() as usize, &mut l),
        // cases of other properties' replay files (profile + input) are accepted too: push the input through everything
        _ => {
            let s = jget_str(case, "s").or_else(|| jget_str(case, "input")).expect("s");
            let t = jget_str(case, "t").unwrap_or_else(|| s.chars().rev().collect());
            // on a thread with the default stack size (a stack overflow found there must reproduce)
            std::thread::scope(|sc| std::thread::Builder::new().spawn_scoped(sc, || check_string(&s, &t, &mut l)).expect("spawn").join()).unwrap_or_else(|e| std::panic::resume_unwind(e))
        }
    }
}
