//! C14 — derived property of every code point follows the RFC 8264 section 8 algorithm
use crate::engine::*;
use crate::ucd::{self, db, Dpv, RULE_NAMES};
use precis_core::{FreeformClass, IdentifierClass, StringClass};
use proptest::prelude::*;
use serde_json::{json, Value};
use unicode_normalization::UnicodeNormalization;

fn cpj(class: &str, entry: &str, cp: u32) -> Value {
    json!({"op": "classify", "class": class, "entry": entry, "cp": format!("U+{cp:04X}"), "cp_value": cp})
}

fn valid(v: Dpv) -> bool {
    matches!(v, Dpv::PValid | Dpv::SpecPval | Dpv::ContextJ | Dpv::ContextO)
}

pub fn check_cp(cp: u32, l: &mut Local) -> Check {
    let d = db();
    let idc = IdentifierClass::default();
    let ffc = FreeformClass::default();
    let id = Dpv::of(idc.get_value_from_codepoint(cp));
    let ff = Dpv::of(ffc.get_value_from_codepoint(cp));
    l.evals_n(2);
    if cp > 0x10ffff || (0xd800..0xe000).contains(&cp) {
        for (n, v) in [("IdentifierClass", id), ("FreeformClass", ff)] {
            if valid(v) {
                return Err(Violation::new(cpj(n, "codepoint", cp), "not PVALID/SPEC_CLASS_PVAL/CONTEXTJ/CONTEXTO (surrogate or above U+10FFFF)", format!("{v:?}")));
            }
        }
        l.nt(hash64(&cp));
        if l.want_sample() {
            l.sample(json!({"cp": format!("{cp:#x}"), "id": format!("{id:?}"), "ff": format!("{ff:?}"), "kind": "non-scalar / out of range"}));
        }
        if cp > 0x10ffff {
            return Ok(());
        }
    }
    let k = cp as usize;
    let (rid, rff) = (d.id(cp), d.ff(cp));
    for (n, got, want, iana) in [("IdentifierClass", id, rid, d.iana_id[k]), ("FreeformClass", ff, rff, d.iana_ff[k])] {
        if got != want {
            // third-party data skew guard: does the HasCompat decision differ between ICU4X and unicode-normalization?
            if let Some(c) = char::from_u32(cp) {
                let s = c.to_string();
                let hc_icu = ucd::nfkc_icu(&s) != s;
                let hc_un = s.nfkc().collect::<String>() != s;
                if hc_icu != hc_un {
                    l.skew += 1;
                    continue;
                }
            }
            return Err(Violation::new(
                cpj(n, "codepoint", cp),
                format!("{want:?} (RFC 8264 section 8 over UCD 6.3.0, deciding rule: {})", RULE_NAMES[d.rule[k] as usize]),
                format!("{got:?}"),
            ));
        }
        if iana != 255 && Dpv::from_u8(iana) != got {
            return Err(Violation::new(cpj(n, "codepoint", cp), format!("{:?} (IANA precis-tables-6.3.0.csv)", Dpv::from_u8(iana)), format!("{got:?}")));
        }
        if iana == 255 && !(0xd800..0xe000).contains(&cp) {
            return Err(Violation::new(cpj(n, "codepoint", cp), "code point covered by the IANA registry", "oracle data gap"));
        }
    }
    // relation between the classes
    let rel_ok = if id == Dpv::SpecDis { ff == Dpv::SpecPval } else { ff == id && ff != Dpv::SpecPval };
    if !rel_ok {
        return Err(Violation::new(cpj("both", "codepoint", cp), "id == ff except ff=SpecClassPval <=> id=SpecClassDis", format!("id={id:?} ff={ff:?}")));
    }
    if let Some(c) = char::from_u32(cp) {
        l.evals_n(2);
        let (idc2, ffc2) = (Dpv::of(idc.get_value_from_char(c)), Dpv::of(ffc.get_value_from_char(c)));
        if idc2 != id || ffc2 != ff {
            return Err(Violation::new(cpj("both", "char", cp), format!("same as code point entry: id={id:?} ff={ff:?}"), format!("id={idc2:?} ff={ffc2:?}")));
        }
    }
    let r = d.rule[k];
    if r != 14 {
        l.nt(hash64(&(cp, r)));
        l.label(RULE_NAMES[r as usize]);
        if l.want_sample() {
            l.sample(json!({"cp": format!("U+{cp:04X}"), "deciding_rule": RULE_NAMES[r as usize], "id": format!("{id:?}"), "ff": format!("{ff:?}")}));
        }
    } else {
        l.label("default(DISALLOWED)");
    }
    Ok(())
}

pub fn run(run: &Run) {
    run.set_rule(
        "Generator: exhaustive sweep of every value 0..=0x10FFFF (surrogates included) through both classes and both entry points, \
         boundary values above U+10FFFF and proptest-drawn u32 values in 0x110000..=u32::MAX. Oracles: (1) the RFC 8264 section 8 decision \
         list recomputed in its fixed order from my own parse of the pinned UCD 6.3.0 files (HasCompat through ICU4X NFKC), (2) the IANA \
         precis-tables-6.3.0.csv read with my own CSV reader; class relation and entry-point agreement. Non-trivial: the value is decided \
         by a rule other than the final default, or the value is a surrogate / above U+10FFFF; distinct = distinct (code point, deciding rule).",
    );
    run.assume("pinned UCD 6.3.0 files and IANA CSV are authentic copies; ICU4X NFKC decides HasCompat (differences between ICU4X and unicode-normalization are counted as oracle_skew, expected 0)");
    run.par("all_code_points", true, |tid, n, l| {
        let mut cp = tid as u32;
        while cp < 0x110000 {
            l.cases += 1;
            if let Err(v) = check_cp(cp, l) {
                run.violate(v);
                return;
            }
            cp += n as u32;
        }
    });
    run.par("boundaries_above_range", true, |tid, _n, l| {
        if tid != 0 {
            return;
        }
        for cp in (0x110000u32..0x110400).chain([0x1fffff, 0x200000, 0x7fffffff, 0x80000000, 0x80000001, 0xfffffffe, u32::MAX, 0x0100_0041, 0x8000_0061, 0xffff_0061].into_iter()) {
            l.cases += 1;
            if let Err(v) = check_cp(cp, l) {
                run.violate(v);
                return;
            }
        }
        // every (x<<21 | ascii/letter) alias of a valid code point in the low 21 bits
        for hi in 1u32..2048 {
            for lo in [0x61u32, 0xe9, 0x4e00, 0x200d, 0xb7, 0x10400] {
                // call history: the low code point first (a memo may be keyed on too few bits), the alias, the low one again
                for cp in [lo, (hi << 21) | lo, lo] {
                    l.cases += 1;
                    if let Err(v) = check_cp(cp, l) {
                        run.violate(v);
                        return;
                    }
                }
            }
        }
    });
    run.prop("random_above_range", run.pick(1_000_000, 50_000_000), || (0x110000u32..=u32::MAX, 16u32..30), |(cp, bits), l| {
        // the value, and around it the in-range value that shares its low bits (call-history dependent memo tables)
        let low = cp & ((1u32 << bits) - 1);
        if low <= 0x10ffff {
            check_cp(low, l)?;
        }
        check_cp(*cp, l)?;
        if low <= 0x10ffff {
            check_cp(low, l)?;
        }
        Ok(())
    });
    // poison-then-sweep: a few hundred out-of-range values (biased to the top of the u32 range), then EVERY in-range code point
    // again on the same thread (a memo whose tag loses bits for large arguments answers wrongly for an in-range value afterwards)
    let rounds = run.pick(8usize, 250usize);
    run.par("poison_then_sweep", false, |tid, _n, l| {
        let st = proptest::collection::vec(prop_oneof![3 => 0xf000_0000u32..=u32::MAX, 2 => 0x8000_0000u32..=u32::MAX, 1 => 0x110000u32..=u32::MAX], 300);
        let batches = run.sample_strategy("poison_then_sweep", tid, &st, rounds);
        let idc = IdentifierClass::default();
        let ffc = FreeformClass::default();
        let d = db();
        for batch in batches {
            if run.stopped() {
                return;
            }
            for v in &batch {
                l.cases += 1;
                if let Err(e) = check_cp(*v, l) {
                    run.violate(e);
                    return;
                }
            }
            // light sweep: only the classification, against the reference arrays
            for cp in 0..0x110000u32 {
                let (i, f) = (Dpv::of(idc.get_value_from_codepoint(cp)), Dpv::of(ffc.get_value_from_codepoint(cp)));
                if i != d.id(cp) || f != d.ff(cp) {
                    // confirm through the full check (skew guard etc.) and report with the history that led here
                    if let Err(mut e) = check_cp(cp, l) {
                        e.case = json!({"op": "classify_after_history", "cp_value": cp, "history": batch, "note": "the 300 out-of-range values were classified on the same thread just before"});
                        run.violate(e);
                        return;
                    }
                }
            }
            l.evals_n(2 * 0x110000);
        }
    });
    // repeat-then-neighbour: the same code point 254..258 / 510..514 times, then a code point at +1, +0x40, +0x80, +0x100,
    // +0x10000 whose value differs (hit counters that carry into a key field)
    run.par("repeat_then_neighbour", true, |tid, n, l| {
        let d = db();
        let idc = IdentifierClass::default();
        let ffc = FreeformClass::default();
        let mut k = 0usize;
        for cp in 0x80u32..0x30000 {
            for delta in [1u32, 0x40, 0x80, 0x100, 0x10000] {
                let nb = cp + delta;
                if nb >= 0x110000 || d.id(cp) == d.id(nb) || (0xd800..0xe000).contains(&cp) || (0xd800..0xe000).contains(&nb) {
                    continue;
                }
                k += 1;
                if k % 61 != 0 || (k / 61) % n != tid {
                    continue;
                }
                // exact counts: j lookups of cp through ONE class and ONE entry point, then the neighbour; a miss on the neighbour
                // refills the slot, so each j starts from a fresh fill of cp
                for j in (250usize..=262).chain(507..=520).chain(1020..=1030) {
                    for _ in 0..j {
                        std::hint::black_box(idc.get_value_from_codepoint(cp));
                    }
                    l.cases += 1;
                    l.evals_n(j as u64 + 2);
                    let got_nb = Dpv::of(idc.get_value_from_codepoint(nb));
                    let got_cp = Dpv::of(idc.get_value_from_codepoint(cp));
                    if got_nb != d.id(nb) || got_cp != d.id(cp) {
                        let (x, got, want) = if got_nb != d.id(nb) { (nb, got_nb, d.id(nb)) } else { (cp, got_cp, d.id(cp)) };
                        run.violate(Violation::new(
                            json!({"op": "classify_after_repeats", "cp_value": x, "repeated": cp, "times": j, "class": "IdentifierClass", "entry": "codepoint"}),
                            format!("{want:?} (independent of earlier calls)"),
                            format!("{got:?} after {j} lookups of U+{cp:04X}"),
                        ));
                        return;
                    }
                }
                let _ = &ffc;
            }
        }
    });
    // thread generations: 4 long-lived threads keep classifying their own small working sets while 3000 (thorough: 20000) short-lived threads are
    // started one after the other, each classifying its own working set 40 times over (state keyed on a per-thread sequence number
    // that wraps at 64 / 128 / 256 / 512 / 1024 threads, shared between a live thread and a later one)
    let generations = run.pick(3000usize, 20000usize);
    run.par("thread_generations", false, |tid, _n, l| {
        if tid != 0 {
            return;
        }
        let d = db();
        // working sets: half from a family with one common low byte (different outcomes), half from a broad pool
        let mut seed = run.seed ^ 0x7467_656e;
        let mut pool: Vec<u32> = Vec::new();
        for cp in 0x80u32..0x30000 {
            if !(0xd800..0xe000).contains(&cp) && (cp < 0x3400 || cp % 97 == 0) {
                pool.push(cp);
            }
        }
        let mk_set = |seed: &mut u64| -> Vec<u32> {
            let low = [0xaau32, 0xb2, 0x63, 0x21, 0xa0, 0x41, 0xc4, 0x0][(splitmix(seed) % 8) as usize];
            let mut v: Vec<u32> = Vec::new();
            for _ in 0..24 {
                let hi = (splitmix(seed) % 0x300) as u32;
                let cp = (hi << 8) | low;
                if !(0xd800..0xe000).contains(&cp) {
                    v.push(cp);
                }
            }
            for _ in 0..24 {
                v.push(pool[(splitmix(seed) % pool.len() as u64) as usize]);
            }
            v
        };
        let stop = std::sync::atomic::AtomicBool::new(false);
        let bad: std::sync::Mutex<Option<Violation>> = std::sync::Mutex::new(None);
        let work = |set: &[u32], rounds: usize, who: &str| -> u64 {
            let idc = IdentifierClass::default();
            let ffc = FreeformClass::default();
            let mut calls = 0u64;
            for r in 0..rounds {
                for (i, cp) in set.iter().enumerate() {
                    let (gi, gf) = if (r + i) % 2 == 0 {
                        (Dpv::of(idc.get_value_from_codepoint(*cp)), Dpv::of(ffc.get_value_from_codepoint(*cp)))
                    } else {
                        let c = char::from_u32(*cp).unwrap();
                        (Dpv::of(idc.get_value_from_char(c)), Dpv::of(ffc.get_value_from_char(c)))
                    };
                    calls += 2;
                    if gi != d.id(*cp) || gf != d.ff(*cp) {
                        let mut b = bad.lock().unwrap();
                        if b.is_none() {
                            let (class, got, want) = if gi != d.id(*cp) { ("IdentifierClass", gi, d.id(*cp)) } else { ("FreeformClass", gf, d.ff(*cp)) };
                            *b = Some(Violation::new(
                                json!({"op": "classify_thread_generations", "cp_value": cp, "class": class, "thread": who, "working_set": set, "note": "4 long-lived threads and one short-lived thread at a time were classifying their own working sets"}),
                                format!("{want:?} (independent of other threads and of how many threads the process has started)"),
                                format!("{got:?}"),
                            ));
                        }
                        return calls;
                    }
                }
            }
            calls
        };
        let long_sets: Vec<Vec<u32>> = (0..4).map(|_| mk_set(&mut seed)).collect();
        let total = std::sync::atomic::AtomicU64::new(0);
        std::thread::scope(|s| {
            for (i, set) in long_sets.iter().enumerate() {
                let (stop, work, total) = (&stop, &work, &total);
                s.spawn(move || {
                    while !stop.load(std::sync::atomic::Ordering::Relaxed) {
                        total.fetch_add(work(set, 4, &format!("long-lived {i}")), std::sync::atomic::Ordering::Relaxed);
                    }
                });
            }
            for g in 0..generations {
                let set = mk_set(&mut seed);
                let work = &work;
                let calls = s.spawn(move || work(&set, 40, &format!("short-lived {g}"))).join().unwrap_or(0);
                total.fetch_add(calls, std::sync::atomic::Ordering::Relaxed);
                l.cases += 1;
                if bad.lock().unwrap().is_some() || run.stopped() {
                    break;
                }
            }
            stop.store(true, std::sync::atomic::Ordering::Relaxed);
        });
        l.evals_n(total.load(std::sync::atomic::Ordering::Relaxed));
        let found = bad.lock().unwrap().take();
        if let Some(v) = found {
            run.violate(v);
        }
    });
    // lookups made while a thread is being torn down (from the destructor of a caller's thread-local value, registered before or after
    // the thread's first lookup): 256 threads with generated working sets
    run.par("calls_during_thread_teardown", false, |tid, _n, l| {
        if tid != 0 {
            return;
        }
        let d = db();
        let mut seed = run.seed ^ 0x746c_7364;
        let compat: Vec<u32> = (0xa0u32..0x30000).filter(|cp| d.id(*cp) == Dpv::SpecDis && d.ff(*cp) == Dpv::SpecPval).collect();
        let found: std::sync::Arc<std::sync::Mutex<Vec<(u32, String, bool)>>> = Default::default();
        let calls = std::sync::Arc::new(std::sync::atomic::AtomicU64::new(0));
        for k in 0..256usize {
            let mut set: Vec<u32> = vec![0x61, 0xaa, 0xb2, 0x2163, 0xff21, 0x1d400, 0x2f800, 0x200c, 0x378, 0x20];
            for _ in 0..30 {
                set.push(compat[(splitmix(&mut seed) % compat.len() as u64) as usize]);
                set.push((splitmix(&mut seed) % 0x30000) as u32);
            }
            set.retain(|cp| !(0xd800..0xe000).contains(cp));
            let before_first_lookup = k % 2 == 0;
            let (found2, calls2) = (found.clone(), calls.clone());
            let hook_set = set.clone();
            let hook = move || {
                let r = std::panic::catch_unwind(|| {
                    let idc = IdentifierClass::default();
                    let ffc = FreeformClass::default();
                    for cp in &hook_set {
                        let (gi, gf) = (Dpv::of(idc.get_value_from_codepoint(*cp)), Dpv::of(ffc.get_value_from_char(char::from_u32(*cp).unwrap())));
                        calls2.fetch_add(2, std::sync::atomic::Ordering::Relaxed);
                        if gi != db().id(*cp) || gf != db().ff(*cp) {
                            found2.lock().unwrap().push((*cp, format!("IdentifierClass={gi:?} FreeformClass={gf:?}"), before_first_lookup));
                            return;
                        }
                    }
                });
                if r.is_err() {
                    found2.lock().unwrap().push((hook_set[0], "panic inside the lookup".to_string(), before_first_lookup));
                }
            };
            let warm: Vec<u32> = set.iter().rev().take(12).copied().collect();
            let h = std::thread::spawn(move || {
                let mut hook = Some(hook);
                if before_first_lookup {
                    at_thread_exit(Box::new(hook.take().unwrap()));
                }
                let idc = IdentifierClass::default();
                for cp in &warm {
                    std::hint::black_box(idc.get_value_from_codepoint(*cp));
                }
                if let Some(hk) = hook.take() {
                    at_thread_exit(Box::new(hk));
                }
            });
            let _ = h.join();
            l.cases += 1;
            if let Some((cp, got, before)) = found.lock().unwrap().first().cloned() {
                run.violate(Violation::new(
                    json!({"op": "classify_during_thread_teardown", "cp_value": cp, "hook_registered_before_first_lookup": before, "note": "lookup made from the destructor of a thread-local value of the caller while the thread ends"}),
                    format!("IdentifierClass={:?} FreeformClass={:?} (independent of where the call is made from)", d.id(cp), d.ff(cp)),
                    got,
                ));
                break;
            }
        }
        l.evals_n(calls.load(std::sync::atomic::Ordering::Relaxed));
    });
    // every in-range valid code point paired with its aliases at +2^21 .. +2^31 (same thread, alternating)
    run.par("aliases_of_valid_code_points", true, |tid, n, l| {
        let d = db();
        let mut cp = tid as u32;
        while cp < 0x110000 {
            if cp % 7 == 0 && matches!(d.id(cp), Dpv::PValid | Dpv::ContextJ | Dpv::ContextO) || matches!(d.ff(cp), Dpv::SpecPval) && cp % 5 == 0 {
                for sh in [21u32, 24, 29, 30, 31] {
                    let alias = cp | (1u32 << sh);
                    for x in [cp, alias, cp] {
                        l.cases += 1;
                        if let Err(v) = check_cp(x, l) {
                            run.violate(v);
                            return;
                        }
                    }
                }
            }
            cp += n as u32;
        }
    });
    // in-range partners: every such code point against the code point that differs from it in exactly one of the
    // bits 0..=20 (same thread, alternating) - a memo keyed on too few bits of an *in-range* value (r6-C14-2: low 20 bits)
    run.par("in_range_bit_partners", true, |tid, n, l| {
        let d = db();
        let mut cp = tid as u32;
        while cp < 0x110000 {
            if matches!(d.id(cp), Dpv::PValid | Dpv::ContextJ | Dpv::ContextO) || matches!(d.ff(cp), Dpv::SpecPval) {
                for sh in 0u32..=20 {
                    let alias = cp ^ (1u32 << sh);
                    if alias >= 0x110000 {
                        continue;
                    }
                    let seq = [cp, alias, cp, alias];
                    for (i, x) in seq.iter().enumerate() {
                        l.cases += 1;
                        if let Err(mut v) = check_cp(*x, l) {
                            v.case["history"] = json!(seq[..i].to_vec());
                            run.violate(v);
                            return;
                        }
                    }
                }
            }
            cp += n as u32;
        }
    });
}

pub fn replay(_run: &Run, case: &Value) -> Check {
    let cp = case.get("cp_value").and_then(|v| v.as_u64()).expect("cp_value") as u32;
    if case.get("op").and_then(|o| o.as_str()) == Some("classify_during_thread_teardown") {
        let before = case["hook_registered_before_first_lookup"].as_bool().unwrap_or(true);
        let res: std::sync::Arc<std::sync::Mutex<Option<Check>>> = Default::default();
        let res2 = res.clone();
        let hook = move || {
            let r = std::panic::catch_unwind(|| check_cp(cp, &mut Local::default()));
            *res2.lock().unwrap() = Some(r.unwrap_or_else(|_| Err(Violation::new(json!({"cp_value": cp}), "returns", "panic inside the lookup"))));
        };
        let _ = std::thread::spawn(move || {
            let mut hook = Some(hook);
            if before {
                at_thread_exit(Box::new(hook.take().unwrap()));
            }
            std::hint::black_box(IdentifierClass::default().get_value_from_codepoint(0x61));
            if let Some(h) = hook.take() {
                at_thread_exit(Box::new(h));
            }
        })
        .join();
        let out = res.lock().unwrap().take();
        return out.unwrap_or(Ok(()));
    }
    // cases that depend on earlier calls on the same thread carry their history
    if let Some(h) = case.get("history").and_then(|h| h.as_array()) {
        let mut l = Local::default();
        for v in h {
            check_cp(v.as_u64().unwrap() as u32, &mut l)?;
        }
    }
    if let (Some(r), Some(t)) = (case.get("repeated").and_then(|v| v.as_u64()), case.get("times").and_then(|v| v.as_u64())) {
        // a miss on the probed value first (fresh fill of the repeated one afterwards), then the exact number of lookups
        std::hint::black_box(IdentifierClass::default().get_value_from_codepoint(cp));
        for _ in 0..t {
            std::hint::black_box(IdentifierClass::default().get_value_from_codepoint(r as u32));
        }
        let got = Dpv::of(IdentifierClass::default().get_value_from_codepoint(cp));
        if got != db().id(cp) {
            return Err(Violation::new(case.clone(), format!("{:?}", db().id(cp)), format!("{got:?}")));
        }
    }
    check_cp(cp, &mut Local::default())
}
