//! C06 — Nickname enforcement applies the RFC 8266 rules until the string is stable
use super::pipe::*;
use crate::engine::*;
use crate::model::*;
use serde_json::{json, Value};

pub fn check(run: &Run, s: &str, l: &mut Local) -> Check {
    let p = Prof::Nick;
    let prep = check_pipe(run, p, Op::Prepare, s, l)?;
    let enf = check_pipe(run, p, Op::Enforce, s, l)?;
    match &prep.got {
        Ok(x) => {
            if x != s {
                return Err(Violation::new(case_json(p, Op::Prepare, s), "prepare returns the input unchanged", fmt_res(&prep.got)));
            }
        }
        Err(e) => {
            if enf.got != Err(e.clone()) {
                return Err(Violation::new(case_json(p, Op::Enforce, s), format!("the error of prepare: Err({e:?})"), fmt_res(&enf.got)));
            }
        }
    }
    // enforce(s) is a function of s alone: the same call once more after a comparison that involved the same string on
    // this thread (a memo shared between the comparison form and the enforcement form, r6-C06-2)
    if s.len() <= 70_000 {
        l.evals_n(2);
        let _ = imp_compare(p, s, s);
        let enf2 = imp_enforce(p, s);
        if enf2 != enf.got {
            let mut c = case_json(p, Op::Enforce, s);
            c["history"] = json!(["compare(s, s) on the same thread", "enforce(s)"]);
            return Err(Violation::new(c, format!("the same result as before the comparison: {}", fmt_res(&enf.got)), fmt_res(&enf2)));
        }
    }
    if let Ok(e) = &enf.got {
        if !enf.excused {
            // every accepted result is a fixed point of the nickname rules: through the model ...
            let mut tr = Trace::default();
            let again = model_nick_round(e, false, &mut tr);
            if again != vec![Ok(e.clone())] {
                let again2 = with_alt_norm(|| model_nick_round(e, false, &mut Trace::default()));
                if again2 != vec![Ok(e.clone())] {
                    return Err(Violation::new(case_json(p, Op::Enforce, s), format!("result \"{}\" is a fixed point of the rules", esc(e)), format!("rules map it to {}", fmt_alts(&again))));
                }
                l.skew += 1;
            }
            // ... and through the implementation's own rules
            l.evals_n(3);
            let steps = [imp_prepare(p, e), imp_rule(p, RuleKind::Additional, e), imp_rule(p, RuleKind::Norm, e)];
            for (n, r) in ["prepare", "additional_mapping_rule", "normalization_rule"].iter().zip(steps.iter()) {
                if *r != Ok(e.clone()) {
                    return Err(Violation::new(case_json(p, Op::Enforce, s), format!("{n}(result) leaves \"{}\" unchanged", esc(e)), fmt_res(r)));
                }
            }
        }
        l.label("accepted");
        let rounds = enf.trace.rounds;
        if e != s {
            l.nt(hash64(&s));
            l.label(match rounds {
                0 | 1 => "changed_rounds_1",
                2 => "changed_rounds_2",
                3 => "changed_rounds_3",
                _ => "changed_rounds_4",
            });
            if l.want_sample() || (rounds >= 3 && l.tid == 0 && l.evals % 7 == 0 && l.want_sample()) {
                l.sample(json!({"input": esc(s), "enforce": fmt_res(&enf.got), "applications": rounds}));
            }
        }
    } else {
        l.label(if prep.got.is_ok() { "rejected_by_enforce_only" } else { "rejected" });
    }
    Ok(())
}

pub fn run(run: &Run) {
    run.set_rule(
        "Generator: proptest strings for FreeformClass rich in spaces of every kind next to 1-4-byte characters, characters whose NFKC introduces \
         spaces or further mappable characters (pool computed with ICU4X at start-up), compatibility characters, composing sequences; all-space \
         strings; every pair (c1,c2) of characters whose NFKC contains a space combined with 5 templates (exhaustive) and triples in 2 templates to reach multi-round inputs; ALL strings of length <= 4 (quick) / 5 (thorough) \
         over a 28-character alphabet (spaces, NFKC-space producers, composing pairs, compatibility jamo whose NFKC is disallowed); \
         fixed corner cases. Oracle: model round r = (non-empty; FreeformClass reference scan; Zs16->SPACE, trim, collapse; ICU4X NFKC; non-empty), \
         enforce = reference stabilize(r) (first application + 3 re-applications); prepare returns the input; every accepted result e satisfies r(e)=e \
         in the model and prepare/additional_mapping_rule/normalization_rule of the implementation leave e unchanged (case preserved by the model). \
         Non-trivial: accepted and the result differs from the input (bucketed by number of applications needed); distinct = distinct input. Plus the deterministic long-input / call-order batteries of DESIGN.md 8.1 and 8.2 that apply to this property (extreme scale, mark neighbours, distinct runs with repeats, environment children, thread lifetime, concurrent distinct inputs; alignment sweeps 0..72 and around 128..65536 bytes, runs and exact counts, sandwiches and multi-megabyte inputs, exhaustive pair sets, plane/byte aliases, hash-colliding pairs back to back, owned arguments with spare capacity); each battery is a finite list enumerated completely and appears as its own section in 'sections'.",
    );
    let ns = &crate::gens::pools().nfkc_space;
    run.extra("nfkc_space_pool_size", json!(ns.len()));
    run.par("nfkc_space_pairs", true, |tid, n, l| {
        let mut idx = 0usize;
        for a in ns.iter() {
            for b in ns.iter() {
                idx += 1;
                if idx % n != tid {
                    continue;
                }
                if idx % 512 == 0 && run.stopped() {
                    return;
                }
                for s in [format!("{a}{b}"), format!("x{a}{b}"), format!("{a}x{b}"), format!("{a}{b}x"), format!("é{a} {b}€")] {
                    l.cases += 1;
                    if check(run, &s, l).is_err() {
                        shrink_report(run, Prof::Nick, Op::Enforce, &s);
                        return;
                    }
                }
            }
        }
    });
    enum_strings(run, "enum_alpha_free", &ALPHA_FREE, run.pick(4u32, 5u32), &|s, l| {
        if check(run, s, l).is_err() {
            shrink_report(run, Prof::Nick, Op::Enforce, s);
            shrink_report(run, Prof::Nick, Op::Prepare, s);
            return false;
        }
        true
    });
    enum_strings_padded(run, "enum_alpha_free_long_pads", &ALPHA_FREE, run.pick(3u32, 4u32), &|s, l| {
        if check(run, s, l).is_err() {
            shrink_report(run, Prof::Nick, Op::Enforce, s);
            return false;
        }
        true
    });
    composing_pairs(run, "all_composing_pairs", &|s, l| match check(run, s, l) {
        Ok(()) => true,
        Err(_) => {
            shrink_report(run, Prof::Nick, Op::Enforce, s);
            false
        }
    });
    {
        let mut labels: Vec<String> = zwnj_run_labels().into_iter().map(|s| format!("pw {s} end")).collect();
        labels.extend(counted_word_labels());
        labels.extend(PAYLOADS_FAMILIES.iter().map(|s| s.to_string()));
        battery(run, "zwnj_runs_and_counted_words", &labels, &|s, l| match check(run, s, l) {
            Ok(()) => true,
            Err(v) => {
                run.violate(v);
                false
            }
        });
    }
    battery(run, "misordered_marks", &misordered_mark_strings(), &|s, l| match check(run, s, l) {
        Ok(()) => true,
        Err(v) => {
            run.violate(v);
            false
        }
    });
    {
        let mut all = mark_neighbour_strings(0);
        all.extend(mark_neighbour_strings(2));
        {
        let mut all = many_distinct_then_offender(true);
        all.extend(pairs_at_block_cuts(true));
        battery(run, "many_distinct_and_pairs_at_block_cuts", &all, &|s, l| match check(run, s, l) {
            Ok(()) => true,
            Err(v) => {
                run.violate(v);
                false
            }
        });
    }
    battery(run, "mark_neighbours", &all, &|s, l| match check(run, s, l) {
            Ok(()) => true,
            Err(v) => {
                run.violate(v);
                false
            }
        });
    }
    huge_section(run, true, &[Prof::Nick], &|_p, s, l| check(run, s, l));
    concurrent_distinct(run, &[Prof::Nick], &concurrent_unit, &|_p, s, l| check(run, s, l));
    pointer_offset_sweep(run, &["\u{a0}", "\u{3000}", "  ", " \u{a0}", "e\u{301}", "\u{212b}", "\u{fb01}", "A", "\u{2003} ", "\u{9c7}\u{9be}"], &|s, l| check(run, s, l));
    battery(run, "respelled_middle_dot", &respelled_middle_dot_strings(), &|s, l| match check(run, s, l) {
        Ok(()) => true,
        Err(v) => {
            run.violate(v);
            false
        }
    });
    collisions(run, "fingerprint_collisions", &|s, l| match check(run, s, l) {
        Ok(()) => true,
        Err(v) => {
            run.violate(v);
            false
        }
    });
    let pl: Vec<&str> = PAYLOADS_SPACE.iter().chain(PAYLOADS_FREE.iter()).copied().collect();
    stress(run, "alignment_and_runs", &pl, &|s, l| {
        if check(run, s, l).is_err() {
            shrink_report(run, Prof::Nick, Op::Enforce, s);
            return false;
        }
        true
    });
    // triples of NFKC-space producers (thorough: all; quick: every 7th) in two templates
    let stride = run.pick(7usize, 1usize);
    run.par("nfkc_space_triples", stride == 1, |tid, n, l| {
        let mut idx = 0usize;
        for a in ns.iter() {
            for b in ns.iter() {
                for c in ns.iter() {
                    idx += 1;
                    if idx % n != tid || (idx / n) % stride != 0 {
                        continue;
                    }
                    if idx % 4096 < n && run.stopped() {
                        return;
                    }
                    for s in [format!("{a}{b}{c}"), format!("{a}x{b} {c}")] {
                        l.cases += 1;
                        if check(run, &s, l).is_err() {
                            shrink_report(run, Prof::Nick, Op::Enforce, &s);
                            return;
                        }
                    }
                }
            }
        }
    });
    run.par("corner_cases", true, |tid, _n, l| {
        if tid != 0 {
            return;
        }
        for s in ["", " ", "   ", "\u{3000}", "a", "Foo Bar", " a", "a ", "a  b", "é ", "foo\u{a0}bar", "€x y ", "\u{a8}", "\u{a8}\u{a8}", "x\u{a8}", "\u{a8}x", "\u{2017}", "\u{fdfa}", "\u{fdfb}",
            "\u{1fc1}", "\u{384}", "\u{2025}", "\u{ff21}", "\u{fb01}", "\u{2163}", "A\u{30a}", "\u{200d}", "\u{0}", "\u{e000}", "\u{378}", "𝄞 𝄞", "\u{33a0}", "\u{2474}"] {
            l.cases += 1;
            if check(run, s, l).is_err() {
                shrink_report(run, Prof::Nick, Op::Enforce, s);
                shrink_report(run, Prof::Nick, Op::Prepare, s);
                return;
            }
        }
    });
    run.prop("random", run.pick(1_500_000, 60_000_000), freeform_strings, |s, l| check(run, s, l));
}

pub fn replay(run: &Run, case: &Value) -> Check {
    let s = super::pipe::replay_input(case);
    check(run, &s, &mut Local::default())
}
