//! C15 — table generators are faithful to any well-formed UCD input
use crate::engine::*;
use crate::ucd::{self, bidi_idx, gc_idx, ULine, BIDI_NAMES, GC_NAMES};
use precis_core::Codepoints;
use precis_tools::{
    Ascii7Gen, BackwardCompatibleGen, BidiClassGen, DerivedJoiningType, ExceptionsGen, GeneralCategoryGen, HangulSyllableType, RustCodeGen, UcdFileGen,
    UcdTableGen, UnassignedTableGen, UnicodeGen, ViramaTableGen, WidthMappingTableGen,
};
use proptest::collection::vec;
use proptest::prelude::*;
use serde_json::{json, Value};
use std::collections::{BTreeMap, BTreeSet};
use std::path::{Path, PathBuf};
use ucd_parse::{CoreProperty, Property, Script};

// ---------------------------------------------------------------------------------------------
// input description (what the generator produces, and what replay files store)

#[derive(Clone, Debug, PartialEq, Eq, Hash)]
pub struct Ent {
    pub start: u32,
    /// end > start: a <.., First>/<.., Last> pair
    pub end: u32,
    pub gc: u8,
    pub ccc: u8,
    pub bidi: u8,
    /// 0 none, 1 canonical, 2 <wide>, 3 <narrow>, 4 <compat>
    pub dec: u8,
    pub dtarget: u32,
}
#[derive(Clone, Debug, PartialEq, Eq, Hash, Default)]
pub struct Input {
    pub ents: Vec<Ent>,
    /// property files: (start, end, value index)
    pub scripts: Vec<(u32, u32, u8)>,
    pub joining: Vec<(u32, u32, u8)>,
    pub proplist: Vec<(u32, u32, u8)>,
    pub coreprops: Vec<(u32, u32, u8)>,
    pub hangul: Vec<(u32, u32, u8)>,
    /// order in which property blocks are written
    pub block_order: u8,
    /// table identifiers differ from the property values they are built from
    pub alt_names: bool,
    /// how the generators are driven: 0 = exactly as the two build.rs files do; bit 0: every value is asked for twice under two identifiers;
    /// bit 1: parse once, emit twice (run_generators_cfg); bit 2 (with bit 1): the input is split into two directories, the second is
    /// parsed after the first emission
    pub cfg: u8,
}

const SCRIPT_VALUES: [&str; 7] = ["Greek", "Hebrew", "Hiragana", "Katakana", "Han", "Latin", "Common"];
const JOIN_VALUES: [&str; 6] = ["D", "L", "R", "T", "U", "C"];
const PROPLIST_VALUES: [&str; 3] = ["Join_Control", "Noncharacter_Code_Point", "White_Space"];
const CORE_VALUES: [&str; 2] = ["Default_Ignorable_Code_Point", "Alphabetic"];
const HANGUL_VALUES: [&str; 5] = ["L", "V", "T", "LV", "LVT"];

fn uline(cp: u32, name: &str, e: &Ent) -> String {
    let dec = match e.dec {
        0 => String::new(),
        1 => format!("{:04X} 0301", e.dtarget),
        2 => format!("<wide> {:04X}", e.dtarget),
        3 => format!("<narrow> {:04X}", e.dtarget),
        _ => format!("<compat> {:04X}", e.dtarget),
    };
    format!("{:04X};{};{};{};{};{};;;;N;;;;;", cp, name, GC_NAMES[e.gc as usize], e.ccc, BIDI_NAMES[e.bidi as usize], dec)
}

impl Input {
    pub fn unicode_data_text(&self) -> String {
        let mut s = String::new();
        for e in &self.ents {
            if e.end > e.start {
                s.push_str(&uline(e.start, "<Synthetic, First>", e));
                s.push('\n');
                s.push_str(&uline(e.end, "<Synthetic, Last>", e));
                s.push('\n');
            } else {
                s.push_str(&uline(e.start, &format!("SYNTHETIC-{:04X}", e.start), e));
                s.push('\n');
            }
        }
        s
    }
    fn prop_text(items: &[(u32, u32, u8)], values: &[&str], order: u8, title: &str) -> String {
        let mut s = format!("# {title}-0.0.0.txt\n# synthetic\n\n");
        let mut blocks: Vec<usize> = (0..values.len()).collect();
        let k = order as usize % values.len().max(1);
        blocks.rotate_left(k);
        if order & 0x80 != 0 {
            blocks.reverse();
        }
        for b in blocks {
            let mut any = false;
            for (a, e, v) in items.iter().filter(|(_, _, v)| *v as usize == b) {
                any = true;
                if a == e && order & 0x40 != 0 && (a % 3 == 0) {
                    // a single code point spelled as a degenerate range (valid UCD syntax)
                    s.push_str(&format!("{:04X}..{:04X}    ; {} # Xx   [1] SYNTHETIC\n", a, e, values[*v as usize]));
                } else if a == e {
                    s.push_str(&format!("{:04X}          ; {} # Xx       SYNTHETIC\n", a, values[*v as usize]));
                } else {
                    s.push_str(&format!("{:04X}..{:04X}    ; {} # Xx  [{}] SYNTHETIC\n", a, e, values[*v as usize], e - a + 1));
                }
            }
            if any {
                s.push_str("\n# Total code points: 0\n\n# ================================================\n\n");
            }
        }
        s.push_str("# EOF\n");
        s
    }
    pub fn write(&self, dir: &Path) {
        std::fs::create_dir_all(dir.join("extracted")).expect("mkdir");
        std::fs::write(dir.join("UnicodeData.txt"), self.unicode_data_text()).unwrap();
        std::fs::write(dir.join("Scripts.txt"), Self::prop_text(&self.scripts, &SCRIPT_VALUES, self.block_order, "Scripts")).unwrap();
        std::fs::write(dir.join("extracted/DerivedJoiningType.txt"), Self::prop_text(&self.joining, &JOIN_VALUES, self.block_order, "DerivedJoiningType")).unwrap();
        std::fs::write(dir.join("PropList.txt"), Self::prop_text(&self.proplist, &PROPLIST_VALUES, self.block_order, "PropList")).unwrap();
        std::fs::write(dir.join("DerivedCoreProperties.txt"), Self::prop_text(&self.coreprops, &CORE_VALUES, self.block_order, "DerivedCoreProperties")).unwrap();
        std::fs::write(dir.join("HangulSyllableType.txt"), Self::prop_text(&self.hangul, &HANGUL_VALUES, self.block_order, "HangulSyllableType")).unwrap();
    }
    fn json(&self) -> Value {
        let t = |v: &Vec<(u32, u32, u8)>| v.iter().map(|(a, b, c)| json!([a, b, c])).collect::<Vec<_>>();
        json!({
            "ents": self.ents.iter().map(|e| json!([e.start, e.end, e.gc, e.ccc, e.bidi, e.dec, e.dtarget])).collect::<Vec<_>>(),
            "scripts": t(&self.scripts), "joining": t(&self.joining), "proplist": t(&self.proplist), "coreprops": t(&self.coreprops), "hangul": t(&self.hangul),
            "block_order": self.block_order, "alt_names": self.alt_names, "cfg": self.cfg,
            "unicode_data_txt": self.unicode_data_text(),
        })
    }
    fn from_json(v: &Value) -> Input {
        let t = |k: &str| -> Vec<(u32, u32, u8)> {
            v[k].as_array().map(|a| a.iter().map(|x| (x[0].as_u64().unwrap() as u32, x[1].as_u64().unwrap() as u32, x[2].as_u64().unwrap() as u8)).collect()).unwrap_or_default()
        };
        Input {
            ents: v["ents"]
                .as_array()
                .unwrap()
                .iter()
                .map(|x| {
                    let g = |i: usize| x[i].as_u64().unwrap();
                    Ent { start: g(0) as u32, end: g(1) as u32, gc: g(2) as u8, ccc: g(3) as u8, bidi: g(4) as u8, dec: g(5) as u8, dtarget: g(6) as u32 }
                })
                .collect(),
            scripts: t("scripts"),
            joining: t("joining"),
            proplist: t("proplist"),
            coreprops: t("coreprops"),
            hangul: t("hangul"),
            block_order: v["block_order"].as_u64().unwrap_or(0) as u8,
            alt_names: v["alt_names"].as_bool().unwrap_or(false),
            cfg: v["cfg"].as_u64().unwrap_or(0) as u8,
        }
    }
}

// ---------------------------------------------------------------------------------------------
// running the real generators, configured exactly as the two build.rs files configure them

pub fn run_generators(ucd: &Path, out: &Path) -> Result<(), String> {
    run_generators_x(ucd, out, false)
}
/// `alt`: every table gets an identifier that differs from the property value it is built from (suffix _x)
pub fn run_generators_x(ucd: &Path, out: &Path, alt: bool) -> Result<(), String> {
    let e = |x: precis_tools::Error| format!("{x}");
    let tn = |t: &str| if alt { format!("{t}_x") } else { t.to_string() };
    std::fs::create_dir_all(out).map_err(|x| x.to_string())?;
    // precis-core/build.rs: generate_context_tables
    {
        let mut gen = RustCodeGen::new(out.join("context_tables.rs")).map_err(e)?;
        let mut ucd_gen = UcdFileGen::new(ucd);
        let mut gc_gen = GeneralCategoryGen::new();
        let mut script_gen: UnicodeGen<Script> = UnicodeGen::new();
        let mut djt_gen: UnicodeGen<DerivedJoiningType> = UnicodeGen::new();
        gc_gen.add(Box::new(ViramaTableGen::new(&tn("virama"))));
        for (n, t) in [("Greek", "Greek"), ("Hebrew", "Hebrew"), ("Hiragana", "Hiragana"), ("Katakana", "Katakana"), ("Han", "Han")] {
            script_gen.add(Box::new(UcdTableGen::new(n, &tn(t))));
        }
        for (n, t) in [("D", "Dual_Joining"), ("L", "Left_Joining"), ("R", "Right_Joining"), ("T", "Transparent")] {
            djt_gen.add(Box::new(UcdTableGen::new(n, &tn(t))));
        }
        ucd_gen.add(Box::new(gc_gen));
        ucd_gen.add(Box::new(script_gen));
        ucd_gen.add(Box::new(djt_gen));
        gen.add(Box::new(ucd_gen));
        gen.generate_code().map_err(e)?;
    }
    // precis-core/build.rs: generate_precis_tables
    {
        let mut gen = RustCodeGen::new(out.join("precis_tables.rs")).map_err(e)?;
        let mut ucd_gen = UcdFileGen::new(ucd);
        let mut gc_gen = GeneralCategoryGen::new();
        let mut hangul_gen: UnicodeGen<HangulSyllableType> = UnicodeGen::new();
        let mut prop_gen: UnicodeGen<Property> = UnicodeGen::new();
        let mut core_prop_gen: UnicodeGen<CoreProperty> = UnicodeGen::new();
        for (n, t) in [("Ll", "Lowercase_Letter"), ("Lu", "Uppercase_Letter"), ("Lo", "Other_Letter"), ("Nd", "Decimal_Number"), ("Lm", "Modifier_Letter"), ("Mn", "Nonspacing_Mark"), ("Mc", "Spacing_Mark")] {
            gc_gen.add(Box::new(UcdTableGen::new(n, &tn(t))));
        }
        gen.add(Box::new(ExceptionsGen::new()));
        gen.add(Box::new(BackwardCompatibleGen::new()));
        prop_gen.add(Box::new(UcdTableGen::new("Join_Control", &tn("Join_Control"))));
        hangul_gen.add(Box::new(UcdTableGen::new("L", &tn("Leading_Jamo"))));
        hangul_gen.add(Box::new(UcdTableGen::new("V", &tn("Vowel_Jamo"))));
        hangul_gen.add(Box::new(UcdTableGen::new("T", &tn("Trailing_Jamo"))));
        gc_gen.add(Box::new(UnassignedTableGen::new(&tn("Unassigned"))));
        gen.add(Box::new(Ascii7Gen::new()));
        gc_gen.add(Box::new(UcdTableGen::new("Cc", &tn("Control"))));
        core_prop_gen.add(Box::new(UcdTableGen::new("Default_Ignorable_Code_Point", &tn("Default_Ignorable_Code_Point"))));
        prop_gen.add(Box::new(UcdTableGen::new("Noncharacter_Code_Point", &tn("Noncharacter_Code_Point"))));
        gc_gen.add(Box::new(UcdTableGen::new("Zs", &tn("Space_Separator"))));
        for (n, t) in [("Sm", "Math_Symbol"), ("Sc", "Currency_Symbol"), ("Sk", "Modifier_Symbol"), ("So", "Other_Symbol"), ("Pc", "Connector_Punctuation"),
            ("Pd", "Dash_Punctuation"), ("Ps", "Open_Punctuation"), ("Pe", "Close_Punctuation"), ("Pi", "Initial_Punctuation"), ("Pf", "Final_Punctuation"),
            ("Po", "Other_Punctuation"), ("Lt", "Titlecase_Letter"), ("Nl", "Letter_Number"), ("No", "Other_Number"), ("Me", "Enclosing_Mark")] {
            gc_gen.add(Box::new(UcdTableGen::new(n, &tn(t))));
        }
        ucd_gen.add(Box::new(gc_gen));
        ucd_gen.add(Box::new(hangul_gen));
        ucd_gen.add(Box::new(prop_gen));
        ucd_gen.add(Box::new(core_prop_gen));
        gen.add(Box::new(ucd_gen));
        gen.generate_code().map_err(e)?;
    }
    // precis-profiles/build.rs
    {
        let mut gen = RustCodeGen::new(out.join("bidi_class.rs")).map_err(e)?;
        let mut ucd_gen = UcdFileGen::new(ucd);
        let mut gc_gen = GeneralCategoryGen::new();
        gc_gen.add(Box::new(BidiClassGen::new(&tn("Bidi_Class_Table"))));
        ucd_gen.add(Box::new(gc_gen));
        gen.add(Box::new(ucd_gen));
        gen.generate_code().map_err(e)?;

        let mut gen = RustCodeGen::new(out.join("space_separator.rs")).map_err(e)?;
        let mut ucd_gen = UcdFileGen::new(ucd);
        let mut gc_gen = GeneralCategoryGen::new();
        gc_gen.add(Box::new(UcdTableGen::new("Zs", &tn("space_separator"))));
        ucd_gen.add(Box::new(gc_gen));
        gen.add(Box::new(ucd_gen));
        gen.generate_code().map_err(e)?;

        let mut gen = RustCodeGen::new(out.join("width_mapping.rs")).map_err(e)?;
        let mut ucd_gen = UcdFileGen::new(ucd);
        let mut gc_gen = GeneralCategoryGen::new();
        gc_gen.add(Box::new(WidthMappingTableGen::new(&tn("wide_narrow_mapping"))));
        ucd_gen.add(Box::new(gc_gen));
        gen.add(Box::new(ucd_gen));
        gen.generate_code().map_err(e)?;
    }
    Ok(())
}

/// Other legitimate ways to drive the same generators (the tables asked for are the ones of the two build.rs files):
/// `dup`: every holder gets a SECOND table generator for each value, under another identifier (suffix _dup), registered after all the
/// first ones; `twice`: every holder parses the UCD directory once and is then asked to emit twice, into <out>/first and <out>/second.
/// Without `twice` the files go to <out> through RustCodeGen + UcdFileGen as usual.
pub fn run_generators_cfg(ucd: &Path, out: &Path, alt: bool, dup: bool, twice: bool) -> Result<(), String> {
    run_generators_cfg2(ucd, None, out, alt, dup, twice)
}
/// `ucd_b`: with `twice`, every holder parses `ucd`, emits into <out>/first, then ALSO parses `ucd_b` (entries that continue the first
/// directory in ascending order) and emits into <out>/second: the second emission must denote both directories together
pub fn run_generators_cfg2(ucd: &Path, ucd_b: Option<&Path>, out: &Path, alt: bool, dup: bool, twice: bool) -> Result<(), String> {
    use precis_tools::UcdCodeGen;
    let e = |x: precis_tools::Error| format!("{x}");
    let tn = |t: &str| if alt { format!("{t}_x") } else { t.to_string() };
    let names = |t: &str| -> Vec<String> { if dup { vec![tn(t), format!("{}_dup", tn(t))] } else { vec![tn(t)] } };
    let passes = if dup { 2 } else { 1 };
    let mut files: Vec<(&str, Vec<Box<dyn UcdCodeGen>>)> = Vec::new();
    {
        let mut gc_gen = GeneralCategoryGen::new();
        let mut script_gen: UnicodeGen<Script> = UnicodeGen::new();
        let mut djt_gen: UnicodeGen<DerivedJoiningType> = UnicodeGen::new();
        for k in 0..passes {
            gc_gen.add(Box::new(ViramaTableGen::new(&names("virama")[k])));
            for (n, t) in [("Greek", "Greek"), ("Hebrew", "Hebrew"), ("Hiragana", "Hiragana"), ("Katakana", "Katakana"), ("Han", "Han")] {
                script_gen.add(Box::new(UcdTableGen::new(n, &names(t)[k])));
            }
            for (n, t) in [("D", "Dual_Joining"), ("L", "Left_Joining"), ("R", "Right_Joining"), ("T", "Transparent")] {
                djt_gen.add(Box::new(UcdTableGen::new(n, &names(t)[k])));
            }
        }
        files.push(("context_tables.rs", vec![Box::new(gc_gen), Box::new(script_gen), Box::new(djt_gen)]));
    }
    {
        let mut gc_gen = GeneralCategoryGen::new();
        let mut hangul_gen: UnicodeGen<HangulSyllableType> = UnicodeGen::new();
        let mut prop_gen: UnicodeGen<Property> = UnicodeGen::new();
        let mut core_prop_gen: UnicodeGen<CoreProperty> = UnicodeGen::new();
        for k in 0..passes {
            for (n, t) in [("Ll", "Lowercase_Letter"), ("Lu", "Uppercase_Letter"), ("Lo", "Other_Letter"), ("Nd", "Decimal_Number"), ("Lm", "Modifier_Letter"), ("Mn", "Nonspacing_Mark"), ("Mc", "Spacing_Mark"),
                ("Cc", "Control"), ("Zs", "Space_Separator"), ("Sm", "Math_Symbol"), ("Sc", "Currency_Symbol"), ("Sk", "Modifier_Symbol"), ("So", "Other_Symbol"), ("Pc", "Connector_Punctuation"),
                ("Pd", "Dash_Punctuation"), ("Ps", "Open_Punctuation"), ("Pe", "Close_Punctuation"), ("Pi", "Initial_Punctuation"), ("Pf", "Final_Punctuation"),
                ("Po", "Other_Punctuation"), ("Lt", "Titlecase_Letter"), ("Nl", "Letter_Number"), ("No", "Other_Number"), ("Me", "Enclosing_Mark")] {
                gc_gen.add(Box::new(UcdTableGen::new(n, &names(t)[k])));
            }
            gc_gen.add(Box::new(UnassignedTableGen::new(&names("Unassigned")[k])));
            prop_gen.add(Box::new(UcdTableGen::new("Join_Control", &names("Join_Control")[k])));
            prop_gen.add(Box::new(UcdTableGen::new("Noncharacter_Code_Point", &names("Noncharacter_Code_Point")[k])));
            hangul_gen.add(Box::new(UcdTableGen::new("L", &names("Leading_Jamo")[k])));
            hangul_gen.add(Box::new(UcdTableGen::new("V", &names("Vowel_Jamo")[k])));
            hangul_gen.add(Box::new(UcdTableGen::new("T", &names("Trailing_Jamo")[k])));
            core_prop_gen.add(Box::new(UcdTableGen::new("Default_Ignorable_Code_Point", &names("Default_Ignorable_Code_Point")[k])));
        }
        files.push(("precis_tables.rs", vec![Box::new(gc_gen), Box::new(hangul_gen), Box::new(prop_gen), Box::new(core_prop_gen)]));
    }
    {
        // the bidi generator also emits the BidiClass enum: one generator per file
        let mut gc_gen = GeneralCategoryGen::new();
        gc_gen.add(Box::new(BidiClassGen::new(&tn("Bidi_Class_Table"))));
        files.push(("bidi_class.rs", vec![Box::new(gc_gen)]));
        let mut gc_gen = GeneralCategoryGen::new();
        let mut gc_gen2 = GeneralCategoryGen::new();
        for k in 0..passes {
            gc_gen.add(Box::new(UcdTableGen::new("Zs", &names("space_separator")[k])));
            gc_gen2.add(Box::new(WidthMappingTableGen::new(&names("wide_narrow_mapping")[k])));
        }
        files.push(("space_separator.rs", vec![Box::new(gc_gen)]));
        files.push(("width_mapping.rs", vec![Box::new(gc_gen2)]));
    }
    if twice {
        for sub in ["first", "second"] {
            std::fs::create_dir_all(out.join(sub)).map_err(|x| x.to_string())?;
        }
        for (name, gens) in files.iter_mut() {
            let mut fa = std::fs::File::create(out.join("first").join(*name)).map_err(|x| x.to_string())?;
            let mut fb = std::fs::File::create(out.join("second").join(*name)).map_err(|x| x.to_string())?;
            for g in gens.iter_mut() {
                g.parse_unicode_file(ucd).map_err(e)?;
                g.generate_code(&mut fa).map_err(e)?;
                if let Some(b) = ucd_b {
                    g.parse_unicode_file(b).map_err(e)?;
                }
                g.generate_code(&mut fb).map_err(e)?;
            }
        }
    } else {
        std::fs::create_dir_all(out).map_err(|x| x.to_string())?;
        for (name, gens) in files {
            let mut gen = RustCodeGen::new(out.join(name)).map_err(e)?;
            let mut ucd_gen = UcdFileGen::new(ucd);
            for g in gens {
                ucd_gen.add(g);
            }
            gen.add(Box::new(ucd_gen));
            gen.generate_code().map_err(e)?;
        }
    }
    Ok(())
}

// ---------------------------------------------------------------------------------------------
// reader for the rigid emitted syntax

pub struct Table {
    pub file: String,
    pub name: String,
    pub elem_type: String,
    pub declared_len: usize,
    /// (entry, start, end, value text)
    pub entries: Vec<(Codepoints, u32, u32, Option<String>)>,
}

fn hex(s: &str) -> Result<u32, String> {
    let t = s.trim().strip_prefix("0x").ok_or_else(|| format!("hex literal expected: {s}"))?;
    u32::from_str_radix(t, 16).map_err(|e| format!("{s}: {e}"))
}

fn parse_codepoints_expr(s: &str) -> Result<(Codepoints, u32, u32, usize), String> {
    // returns the entry and the number of bytes consumed
    const S: &str = "Codepoints::Single(";
    const R: &str = "Codepoints::Range(std::ops::RangeInclusive::new(";
    if let Some(rest) = s.strip_prefix(S) {
        let close = rest.find(')').ok_or("unclosed Single")?;
        let v = hex(&rest[..close])?;
        Ok((Codepoints::Single(v), v, v, S.len() + close + 1))
    } else if let Some(rest) = s.strip_prefix(R) {
        let close = rest.find("))").ok_or("unclosed Range")?;
        let mut it = rest[..close].split(',');
        let a = hex(it.next().ok_or("range start")?)?;
        let b = hex(it.next().ok_or("range end")?)?;
        if it.next().is_some() {
            return Err("too many range arguments".into());
        }
        Ok((Codepoints::Range(a..=b), a, b, R.len() + close + 2))
    } else {
        Err(format!("unknown entry syntax: {s}"))
    }
}

/// canonical text of a table value: enum variant name without its path, or a decimal number
fn canon_value(v: &str) -> Result<String, String> {
    let v = v.trim();
    if let Some(h) = v.strip_prefix("0x") {
        return u32::from_str_radix(h, 16).map(|n| n.to_string()).map_err(|e| format!("{v}: {e}"));
    }
    if v.chars().all(|c| c.is_ascii_digit()) && !v.is_empty() {
        return Ok(v.to_string());
    }
    match v.rsplit("::").next() {
        Some(last) if !last.is_empty() && last.chars().all(|c| c.is_ascii_alphanumeric() || c == '_') => Ok(last.to_string()),
        _ => Err(format!("unknown value syntax: {v}")),
    }
}

const FILES: [&str; 5] = ["context_tables.rs", "precis_tables.rs", "bidi_class.rs", "space_separator.rs", "width_mapping.rs"];

/// Second reader: let the compiler read the emitted files. A tiny program `include!`s each file next to the
/// Codepoints/DerivedPropertyValue definitions generated from the current template and prints every table.
pub fn parse_emitted_via_rustc(out: &Path) -> Result<Vec<Table>, String> {
    use precis_tools::{CodepointsGen, DerivedPropertyValueGen};
    let e = |x: precis_tools::Error| format!("{x}");
    {
        let mut gen = RustCodeGen::new(out.join("public.rs")).map_err(e)?;
        gen.add(Box::new(CodepointsGen::new()));
        gen.add(Box::new(DerivedPropertyValueGen::new()));
        gen.generate_code().map_err(e)?;
    }
    let mut main = String::from(
        "#![allow(dead_code, unused_imports, non_upper_case_globals, unused)]\ninclude!(\"public.rs\");\n\
         trait E { fn e(&self) -> String; }\n\
         fn cps(c: &Codepoints) -> String { match c { Codepoints::Single(a) => format!(\"S {} {}\", a, a), Codepoints::Range(r) => format!(\"R {} {}\", r.start(), r.end()) } }\n\
         impl E for Codepoints { fn e(&self) -> String { format!(\"{}\\t-\", cps(self)) } }\n\
         impl<T: std::fmt::Debug> E for (Codepoints, T) { fn e(&self) -> String { format!(\"{}\\t{:?}\", cps(&self.0), self.1) } }\n\
         fn dump<T: E>(file: &str, name: &str, t: &[T]) { println!(\"T\\t{}\\t{}\\t{}\", file, name, t.len()); for x in t { println!(\"E\\t{}\", x.e()); } }\n",
    );
    for (i, f) in FILES.iter().enumerate() {
        let text = std::fs::read_to_string(out.join(f)).map_err(|e| format!("{f}: {e}"))?;
        let mut names = Vec::new();
        for line in text.lines() {
            let t = line.trim_start().trim_start_matches("pub ").trim_start_matches("(crate) ");
            for kw in ["static ", "const "] {
                if let Some(rest) = t.strip_prefix(kw) {
                    if let Some(colon) = rest.find(':') {
                        let name = rest[..colon].trim();
                        if !name.is_empty() && name.chars().all(|c| c.is_ascii_alphanumeric() || c == '_') {
                            names.push(name.to_string());
                        }
                    }
                }
            }
        }
        main.push_str(&format!("mod m{i} {{ use super::*; include!(\"{f}\"); pub fn d() {{\n"));
        for n in names {
            main.push_str(&format!("  dump(\"{f}\", \"{n}\", &{n}[..]);\n"));
        }
        main.push_str("}}\n");
    }
    main.push_str("fn main() { m0::d(); m1::d(); m2::d(); m3::d(); m4::d(); }\n");
    std::fs::write(out.join("dump_main.rs"), main).map_err(|e| e.to_string())?;
    let exe = out.join("dump_bin");
    let c = std::process::Command::new("rustc")
        .args(["--edition", "2018", "-A", "warnings", "-C", "debuginfo=0", "-C", "opt-level=0", "-o"])
        .arg(&exe)
        .arg(out.join("dump_main.rs"))
        .output()
        .map_err(|e| format!("cannot run rustc: {e}"))?;
    if !c.status.success() {
        return Err(format!("COMPILE-ERROR: {}", String::from_utf8_lossy(&c.stderr).lines().take(6).collect::<Vec<_>>().join(" | ")));
    }
    let r = std::process::Command::new(&exe).output().map_err(|e| format!("cannot run dump: {e}"))?;
    if !r.status.success() {
        return Err("dump program failed".into());
    }
    let mut tables: Vec<Table> = Vec::new();
    for line in String::from_utf8_lossy(&r.stdout).lines() {
        let f: Vec<&str> = line.split('\t').collect();
        match f[0] {
            "T" => tables.push(Table { file: f[1].to_string(), name: f[2].to_string(), elem_type: String::new(), declared_len: f[3].parse().map_err(|_| "len")?, entries: Vec::new() }),
            "E" => {
                let p: Vec<&str> = f[1].split(' ').collect();
                let (a, b): (u32, u32) = (p[1].parse().map_err(|_| "a")?, p[2].parse().map_err(|_| "b")?);
                let cp = if p[0] == "S" { Codepoints::Single(a) } else { Codepoints::Range(a..=b) };
                let val = if f[2] == "-" { None } else { Some(canon_value(f[2])?) };
                tables.last_mut().ok_or("entry before table")?.entries.push((cp, a, b, val));
            }
            _ => {}
        }
    }
    let _ = std::fs::remove_file(&exe);
    Ok(tables)
}

fn same_tables(a: &[Table], b: &[Table]) -> Result<(), String> {
    if a.len() != b.len() {
        return Err(format!("{} vs {} tables", a.len(), b.len()));
    }
    for (x, y) in a.iter().zip(b.iter()) {
        if x.name != y.name || x.entries.len() != y.entries.len() || x.declared_len != y.declared_len {
            return Err(format!("table {} / {}: {} vs {} entries", x.name, y.name, x.entries.len(), y.entries.len()));
        }
        for (e, f) in x.entries.iter().zip(y.entries.iter()) {
            if (e.1, e.2, &e.3) != (f.1, f.2, &f.3) || matches!(e.0, Codepoints::Single(_)) != matches!(f.0, Codepoints::Single(_)) {
                return Err(format!("table {}: entry ({:x},{:x},{:?}) vs ({:x},{:x},{:?})", x.name, e.1, e.2, e.3, f.1, f.2, f.3));
            }
        }
    }
    Ok(())
}

/// Read all emitted tables. Fast path: my reader of the generators' current syntax. If that syntax changed, fall back
/// to the compiler; if the emitted text does not even compile that IS a violation of the property (tables the library
/// cannot search); if neither reader works for another reason it is trouble of this machinery (exit 2), not a violation.
pub fn read_all_tables(out: &Path, cross_check: bool) -> Result<Vec<Table>, (String, String)> {
    let mut tables = Vec::new();
    let mut text_err = None;
    for f in FILES {
        match parse_emitted(&out.join(f)) {
            Ok(t) => tables.extend(t),
            Err(e) => {
                text_err = Some(e);
                break;
            }
        }
    }
    if text_err.is_none() && !cross_check {
        return Ok(tables);
    }
    match parse_emitted_via_rustc(out) {
        Ok(t2) => {
            if text_err.is_none() {
                if let Err(e) = same_tables(&tables, &t2) {
                    infra(&format!("C15: my text reader and rustc disagree on the emitted tables: {e}"));
                }
                Ok(tables)
            } else {
                Ok(t2)
            }
        }
        Err(e) if e.starts_with("COMPILE-ERROR") => Err(("the emitted tables compile".to_string(), e)),
        Err(e) => infra(&format!("C15: cannot read the emitted tables: text reader: {:?}; rustc reader: {e}", text_err)),
    }
}

pub fn parse_emitted(path: &Path) -> Result<Vec<Table>, String> {
    let text = std::fs::read_to_string(path).map_err(|e| format!("{}: {e}", path.display()))?;
    let file = path.file_name().unwrap().to_string_lossy().to_string();
    let mut tables = Vec::new();
    let mut cur: Option<Table> = None;
    for line in text.lines() {
        if let Some(rest) = line.strip_prefix("static ") {
            // static NAME: [TYPE; N] = [
            let colon = rest.find(": [").ok_or("static header")?;
            let name = rest[..colon].to_string();
            let body = &rest[colon + 3..];
            let semi = body.rfind("; ").ok_or("static header ;")?;
            let elem_type = body[..semi].to_string();
            let close = body[semi + 2..].find(']').ok_or("static header ]")?;
            let declared_len: usize = body[semi + 2..semi + 2 + close].parse().map_err(|e| format!("len: {e}"))?;
            if !body[semi + 2 + close..].starts_with("] = [") {
                return Err(format!("unexpected static header: {line}"));
            }
            cur = Some(Table { file: file.clone(), name, elem_type, declared_len, entries: Vec::new() });
        } else if line == "];" {
            tables.push(cur.take().ok_or("]; without table")?);
        } else if let Some(t) = cur.as_mut() {
            let l = line.trim().strip_suffix(',').ok_or_else(|| format!("entry without comma: {line}"))?;
            if let Some(inner) = l.strip_prefix('(') {
                let (cp, a, b, used) = parse_codepoints_expr(inner)?;
                let rest = inner[used..].strip_prefix(", ").ok_or("tuple separator")?;
                let val = rest.strip_suffix(')').ok_or("tuple close")?;
                t.entries.push((cp, a, b, Some(canon_value(val)?)));
            } else {
                let (cp, a, b, used) = parse_codepoints_expr(l)?;
                if used != l.len() {
                    return Err(format!("trailing text in entry: {line}"));
                }
                t.entries.push((cp, a, b, None));
            }
        }
    }
    if cur.is_some() {
        return Err("unterminated table".into());
    }
    Ok(tables)
}

// ---------------------------------------------------------------------------------------------
// the truth: my own parse of the same input files

pub struct Truth {
    pub u: ucd::UData,
    pub scripts: BTreeMap<String, BTreeSet<u32>>,
    pub joining: BTreeMap<String, BTreeSet<u32>>,
    pub proplist: BTreeMap<String, BTreeSet<u32>>,
    pub coreprops: BTreeMap<String, BTreeSet<u32>>,
    pub hangul: BTreeMap<String, BTreeSet<u32>>,
    pub boundaries: Vec<u32>,
}

fn prop_sets(path: &Path, bounds: &mut Vec<u32>) -> BTreeMap<String, BTreeSet<u32>> {
    let mut m: BTreeMap<String, BTreeSet<u32>> = BTreeMap::new();
    for (a, b, v) in ucd::parse_prop_file(&ucd::read(path)) {
        bounds.push(a);
        bounds.push(b);
        let s = m.entry(v).or_default();
        for cp in a..=b {
            s.insert(cp);
        }
    }
    m
}

pub fn read_truth(dir: &Path, with_props: bool) -> Truth {
    let lines: Vec<ULine> = ucd::parse_unicode_data_lines(&ucd::read(&dir.join("UnicodeData.txt")));
    let u = ucd::build_udata(&lines);
    let mut boundaries: Vec<u32> = Vec::new();
    for (a, b, _) in &u.entries {
        boundaries.push(*a);
        boundaries.push(*b);
    }
    let e = BTreeMap::new;
    let (scripts, joining, proplist, coreprops, hangul) = if with_props {
        (
            prop_sets(&dir.join("Scripts.txt"), &mut boundaries),
            prop_sets(&dir.join("extracted/DerivedJoiningType.txt"), &mut boundaries),
            prop_sets(&dir.join("PropList.txt"), &mut boundaries),
            prop_sets(&dir.join("DerivedCoreProperties.txt"), &mut boundaries),
            prop_sets(&dir.join("HangulSyllableType.txt"), &mut boundaries),
        )
    } else {
        (e(), e(), e(), e(), e())
    };
    Truth { u, scripts, joining, proplist, coreprops, hangul, boundaries }
}

#[derive(Clone, Copy)]
enum Kind {
    Gc(u8),
    Unassigned,
    Virama,
    Script(&'static str),
    Joining(&'static str),
    PropList(&'static str),
    Core(&'static str),
    Hangul(&'static str),
    Bidi,
    Width,
    Exceptions,
    Empty,
    Ascii7,
}

fn kind_of(file: &str, name: &str) -> Option<Kind> {
    let gc = |n: &str| Some(Kind::Gc(gc_idx(n)));
    Some(match (file, name) {
        (_, "LOWERCASE_LETTER") => return gc("Ll"),
        (_, "UPPERCASE_LETTER") => return gc("Lu"),
        (_, "OTHER_LETTER") => return gc("Lo"),
        (_, "DECIMAL_NUMBER") => return gc("Nd"),
        (_, "MODIFIER_LETTER") => return gc("Lm"),
        (_, "NONSPACING_MARK") => return gc("Mn"),
        (_, "SPACING_MARK") => return gc("Mc"),
        (_, "CONTROL") => return gc("Cc"),
        (_, "SPACE_SEPARATOR") => return gc("Zs"),
        (_, "MATH_SYMBOL") => return gc("Sm"),
        (_, "CURRENCY_SYMBOL") => return gc("Sc"),
        (_, "MODIFIER_SYMBOL") => return gc("Sk"),
        (_, "OTHER_SYMBOL") => return gc("So"),
        (_, "CONNECTOR_PUNCTUATION") => return gc("Pc"),
        (_, "DASH_PUNCTUATION") => return gc("Pd"),
        (_, "OPEN_PUNCTUATION") => return gc("Ps"),
        (_, "CLOSE_PUNCTUATION") => return gc("Pe"),
        (_, "INITIAL_PUNCTUATION") => return gc("Pi"),
        (_, "FINAL_PUNCTUATION") => return gc("Pf"),
        (_, "OTHER_PUNCTUATION") => return gc("Po"),
        (_, "TITLECASE_LETTER") => return gc("Lt"),
        (_, "LETTER_NUMBER") => return gc("Nl"),
        (_, "OTHER_NUMBER") => return gc("No"),
        (_, "ENCLOSING_MARK") => return gc("Me"),
        (_, "UNASSIGNED") => Kind::Unassigned,
        (_, "VIRAMA") => Kind::Virama,
        (_, "GREEK") => Kind::Script("Greek"),
        (_, "HEBREW") => Kind::Script("Hebrew"),
        (_, "HIRAGANA") => Kind::Script("Hiragana"),
        (_, "KATAKANA") => Kind::Script("Katakana"),
        (_, "HAN") => Kind::Script("Han"),
        (_, "DUAL_JOINING") => Kind::Joining("D"),
        (_, "LEFT_JOINING") => Kind::Joining("L"),
        (_, "RIGHT_JOINING") => Kind::Joining("R"),
        (_, "TRANSPARENT") => Kind::Joining("T"),
        (_, "JOIN_CONTROL") => Kind::PropList("Join_Control"),
        (_, "NONCHARACTER_CODE_POINT") => Kind::PropList("Noncharacter_Code_Point"),
        (_, "DEFAULT_IGNORABLE_CODE_POINT") => Kind::Core("Default_Ignorable_Code_Point"),
        (_, "LEADING_JAMO") => Kind::Hangul("L"),
        (_, "VOWEL_JAMO") => Kind::Hangul("V"),
        (_, "TRAILING_JAMO") => Kind::Hangul("T"),
        (_, "BIDI_CLASS_TABLE") => Kind::Bidi,
        (_, "WIDE_NARROW_MAPPING") => Kind::Width,
        (_, "EXCEPTIONS") => Kind::Exceptions,
        (_, "BACKWARD_COMPATIBLE") => Kind::Empty,
        (_, "ASCII7") => Kind::Ascii7,
        _ => return None,
    })
}


/// what the input assigns for `cp` in the table of this kind: None = not a member
fn truth_value(t: &Truth, k: Kind, cp: u32) -> Option<String> {
    let i = cp as usize;
    let inset = |m: &BTreeMap<String, BTreeSet<u32>>, n: &str| m.get(n).map_or(false, |s| s.contains(&cp));
    let yes = |b: bool| if b { Some(String::new()) } else { None };
    if i >= ucd::N {
        return None;
    }
    match k {
        Kind::Gc(g) => yes(t.u.listed[i] && t.u.gc[i] == g),
        Kind::Unassigned => yes(!t.u.listed[i]),
        Kind::Virama => yes(t.u.listed[i] && t.u.ccc[i] == 9),
        Kind::Script(n) => yes(inset(&t.scripts, n)),
        Kind::Joining(n) => yes(inset(&t.joining, n)),
        Kind::PropList(n) => yes(inset(&t.proplist, n)),
        Kind::Core(n) => yes(inset(&t.coreprops, n)),
        Kind::Hangul(n) => yes(inset(&t.hangul, n)),
        Kind::Bidi => {
            if t.u.listed[i] { Some(BIDI_NAMES[t.u.bidi[i] as usize].to_string()) } else { None }
        }
        Kind::Width => {
            if t.u.listed[i] && (t.u.dtag[i] == ucd::DT_WIDE || t.u.dtag[i] == ucd::DT_NARROW) { Some(t.u.dfirst[i].to_string()) } else { None }
        }
        Kind::Exceptions => ucd::exception(cp).map(|v| format!("{:?}", v.to_impl())),
        Kind::Empty => None,
        Kind::Ascii7 => yes((0x21..=0x7e).contains(&cp)),
    }
}

thread_local! {
    /// 1 = probe every boundary; n > 1 = probe every n-th boundary plus the first and last 16 (table-size sweep)
    static PROBE_STRIDE: std::cell::Cell<usize> = std::cell::Cell::new(1);
}

pub struct Report {
    pub tables: usize,
    pub lookups: u64,
}

/// compare every emitted table with the truth on the probe set
pub fn check_tables(truth: &Truth, out: &Path, full_sweep: bool, with_props: bool) -> Result<Report, (String, String)> {
    check_tables_x(truth, out, full_sweep, with_props, false)
}
pub fn check_tables_x(truth: &Truth, out: &Path, full_sweep: bool, with_props: bool, cross_check: bool) -> Result<Report, (String, String)> {
    let mut tables = read_all_tables(out, cross_check)?;
    for t in tables.iter_mut() {
        if let Some(n) = t.name.strip_suffix("_DUP") {
            t.name = n.to_string();
        }
        if let Some(n) = t.name.strip_suffix("_X") {
            t.name = n.to_string();
        }
    }
    let stride = PROBE_STRIDE.with(|s| s.get());
    // every table this harness asked the generators for (by name) must have been emitted; the three constant
    // tables (EXCEPTIONS, BACKWARD_COMPATIBLE, ASCII7) and any table I do not know are checked only if present / skipped
    const REQUIRED: [&str; 44] = [
        "VIRAMA", "GREEK", "HEBREW", "HIRAGANA", "KATAKANA", "HAN", "DUAL_JOINING", "LEFT_JOINING", "RIGHT_JOINING", "TRANSPARENT", "LOWERCASE_LETTER", "UPPERCASE_LETTER",
        "OTHER_LETTER", "DECIMAL_NUMBER", "MODIFIER_LETTER", "NONSPACING_MARK", "SPACING_MARK", "UNASSIGNED", "CONTROL", "SPACE_SEPARATOR", "MATH_SYMBOL", "CURRENCY_SYMBOL",
        "MODIFIER_SYMBOL", "OTHER_SYMBOL", "CONNECTOR_PUNCTUATION", "DASH_PUNCTUATION", "OPEN_PUNCTUATION", "CLOSE_PUNCTUATION", "INITIAL_PUNCTUATION", "FINAL_PUNCTUATION",
        "OTHER_PUNCTUATION", "TITLECASE_LETTER", "LETTER_NUMBER", "OTHER_NUMBER", "ENCLOSING_MARK", "LEADING_JAMO", "VOWEL_JAMO", "TRAILING_JAMO", "JOIN_CONTROL",
        "NONCHARACTER_CODE_POINT", "DEFAULT_IGNORABLE_CODE_POINT", "BIDI_CLASS_TABLE", "WIDE_NARROW_MAPPING", "SPACE_SEPARATOR",
    ];
    for r in REQUIRED {
        if !tables.iter().any(|t| t.name == r) {
            return Err((format!("table {r} is emitted"), format!("emitted tables: {:?}", tables.iter().map(|t| t.name.clone()).collect::<Vec<_>>())));
        }
    }
    let mut lookups = 0u64;
    for tb in &tables {
        let Some(kind) = kind_of(&tb.file, &tb.name) else { continue };
        if !with_props && matches!(kind, Kind::Script(_) | Kind::Joining(_) | Kind::PropList(_) | Kind::Core(_) | Kind::Hangul(_)) {
            continue;
        }
        if tb.declared_len != tb.entries.len() {
            return Err((format!("{}: declared length == number of entries (the file must compile)", tb.name), format!("declared {} entries {}", tb.declared_len, tb.entries.len())));
        }
        // probe set
        let mut probes: Vec<u32> = Vec::new();
        if full_sweep {
            probes.extend(0..ucd::N as u32);
        } else {
            let mut set: BTreeSet<u32> = BTreeSet::new();
            let mut add = |p: u32| {
                for q in [p.wrapping_sub(2), p.wrapping_sub(1), p, p.wrapping_add(1), p.wrapping_add(2)] {
                    if q <= 0x10ffff {
                        set.insert(q);
                    }
                }
            };
            let nb = truth.boundaries.len();
            for (i, b) in truth.boundaries.iter().enumerate() {
                if stride == 1 || i % stride == 0 || i < 16 || i + 16 >= nb {
                    add(*b);
                }
            }
            let ne = tb.entries.len();
            for (i, (_, a, b, _)) in tb.entries.iter().enumerate() {
                if stride == 1 || i % stride == 0 || i < 16 || i + 16 >= ne {
                    add(*a);
                    add(*b);
                }
            }
            for p in [0u32, 0x7f, 0xd7ff, 0xd800, 0xdfff, 0xe000, 0xfdd0, 0xfdef, 0xfffd, 0xfffe, 0xffff, 0x10000, 0x10fffd, 0x10fffe, 0x10ffff] {
                add(p);
            }
            let lowmax = truth.boundaries.iter().copied().filter(|b| *b < 0x400).max().unwrap_or(0) + 4;
            for p in 0..lowmax {
                set.insert(p);
            }
            probes.extend(set);
        }
        // entries containing a code point: by a coverage array for big probe sets, else by linear scan
        let cover: Option<Vec<i32>> = if probes.len() > 60_000 {
            let mut first = vec![-1i32; ucd::N];
            for (i, e) in tb.entries.iter().enumerate() {
                if e.1 > e.2 {
                    continue; // empty (degenerate) range: contains nothing
                }
                for cp in e.1..=e.2.min(0x10ffff) {
                    let f = first[cp as usize];
                    if f < 0 {
                        first[cp as usize] = i as i32;
                    } else if tb.entries[f as usize].3 != e.3 {
                        return Err((format!("{}: U+{cp:04X} covered by at most one value", tb.name), format!("two entries with values {:?} and {:?}", tb.entries[f as usize].3, e.3)));
                    }
                }
            }
            Some(first)
        } else {
            None
        };
        for cp in probes {
            lookups += 1;
            let want = truth_value(truth, kind, cp);
            // the library's search
            let found = tb.entries.binary_search_by(|e| e.0.partial_cmp(&cp).unwrap()).ok();
            let first: Option<usize> = match &cover {
                Some(c) => {
                    let f = c[cp as usize];
                    if f < 0 { None } else { Some(f as usize) }
                }
                None => {
                    let mut containing = tb.entries.iter().enumerate().filter(|(_, e)| e.1 <= cp && cp <= e.2);
                    let first = containing.next();
                    for (_, e2) in containing {
                        if first.unwrap().1 .3 != e2.3 {
                            return Err((format!("{}: U+{cp:04X} covered by at most one value", tb.name), format!("two entries with values {:?} and {:?}", first.unwrap().1 .3, e2.3)));
                        }
                    }
                    first.map(|(i, _)| i)
                }
            };
            if found.is_some() != first.is_some() {
                return Err((format!("{}: binary search finds an entry for U+{cp:04X} iff one contains it (linear scan: {})", tb.name, first.is_some()), format!("binary search: {found:?}")));
            }
            let got: Option<String> = found.map(|i| tb.entries[i].3.clone().unwrap_or_default());
            let ok = match (kind, &want, &got) {
                // a code point the input does not assign has no bidi class: the table may omit it or give the library's default L;
                // an assigned code point of class L may be omitted (the library's default)
                (Kind::Bidi, None, Some(g)) => g == "L",
                (Kind::Bidi, Some(w), None) => w == "L",
                (_, w, g) => w == g,
            };
            if !ok {
                return Err((format!("{}: U+{cp:04X} -> {}", tb.name, want.map_or("not in table".to_string(), |w| if w.is_empty() { "in table".to_string() } else { w })),
                    got.map_or("not found".to_string(), |g| if g.is_empty() { "found".to_string() } else { g })));
            }
        }
    }
    Ok(Report { tables: tables.len(), lookups })
}

// ---------------------------------------------------------------------------------------------

fn work_dir(tag: &str) -> PathBuf {
    ucd::verif_dir().join("work").join(format!("c15-{}-{tag}", std::process::id()))
}

pub fn check_input(inp: &Input, dir: &Path, l: &mut Local) -> Check {
    check_input_x(inp, dir, l, false)
}
/// same as check_input (the output directory is deliberately NOT cleaned between calls)
pub fn check_input_keep(inp: &Input, dir: &Path, l: &mut Local) -> Check {
    check_input_x(inp, dir, l, false)
}
pub fn check_input_x(inp: &Input, dir: &Path, l: &mut Local, cross: bool) -> Check {
    let ucd_dir = dir.join("ucd");
    let out = dir.join("out");
    let _ = std::fs::remove_dir_all(&ucd_dir);
    inp.write(&ucd_dir);
    let case = || json!({"op": "synthetic_ucd", "input": inp.json()});
    l.eval();
    let split = inp.cfg & 4 != 0 && inp.cfg & 2 != 0 && inp.ents.len() >= 2;
    let (cfg, cross) = (inp.cfg & 3, cross && inp.cfg & 7 == 0);
    let out = if cfg != 0 { dir.join("out-cfg") } else { out };
    if cfg != 0 {
        let _ = std::fs::remove_dir_all(&out);
    }
    // split: the same input as two directories, the second continuing the first
    let (dir_a, dir_b) = (dir.join("ucd-a"), dir.join("ucd-b"));
    if split {
        let cut = |v: &Vec<(u32, u32, u8)>, first: bool| -> Vec<(u32, u32, u8)> { if first { v[..v.len() / 2].to_vec() } else { v[v.len() / 2..].to_vec() } };
        let h = inp.ents.len() / 2;
        let part = |first: bool| Input {
            ents: if first { inp.ents[..h].to_vec() } else { inp.ents[h..].to_vec() },
            scripts: cut(&inp.scripts, first), joining: cut(&inp.joining, first), proplist: cut(&inp.proplist, first), coreprops: cut(&inp.coreprops, first), hangul: cut(&inp.hangul, first),
            ..inp.clone()
        };
        let _ = std::fs::remove_dir_all(&dir_a);
        let _ = std::fs::remove_dir_all(&dir_b);
        part(true).write(&dir_a);
        part(false).write(&dir_b);
    }
    match guard(|| {
        if cfg == 0 {
            run_generators_x(&ucd_dir, &out, inp.alt_names)
        } else if split {
            run_generators_cfg2(&dir_a, Some(&dir_b), &out, inp.alt_names, cfg & 1 != 0, true)
        } else {
            run_generators_cfg(&ucd_dir, &out, inp.alt_names, cfg & 1 != 0, cfg & 2 != 0)
        }
    }) {
        Ok(Ok(())) => {}
        Ok(Err(e)) => return Err(Violation::new(case(), "generators accept a well-formed UCD input", format!("Err: {e}"))),
        Err(p) => return Err(Violation::new(case(), "generators accept a well-formed UCD input", format!("panic: {p}"))),
    }
    let truth = read_truth(&ucd_dir, true);
    if cfg & 2 != 0 {
        // both emissions must denote what had been parsed when they were made
        let first_truth = if split { read_truth(&dir_a, true) } else { read_truth(&ucd_dir, true) };
        if let Err((e, o)) = check_tables_x(&first_truth, &out.join("first"), false, true, false) {
            return Err(Violation::new(case(), format!("first emission: {e}"), o));
        }
        l.label(if split { "parse_emit_parse_more_emit" } else { "parse_once_emit_twice" });
    }
    if cfg & 1 != 0 {
        l.label("every_table_under_two_identifiers");
    }
    let out = if cfg & 2 != 0 { out.join("second") } else { out };
    match check_tables_x(&truth, &out, false, true, cross) {
        Ok(rep) => {
            l.evals_n(rep.lookups);
            if cross {
                l.label("emitted_text_cross_checked_with_rustc");
            }
            // non-trivial: a range adjacent to a differently classed entry, >= 3 bidi runs, or a range next to a single
            let mut runs = 0;
            let mut range_next_to_other = false;
            for (i, e) in inp.ents.iter().enumerate() {
                if i == 0 || inp.ents[i - 1].bidi != e.bidi {
                    runs += 1;
                }
                if i > 0 {
                    let p = &inp.ents[i - 1];
                    let adjacent = p.end + 1 == e.start;
                    let one_is_range = (p.end > p.start) != (e.end > e.start) || (p.end > p.start && e.end > e.start);
                    if adjacent && one_is_range {
                        range_next_to_other = true;
                    }
                }
            }
            if runs >= 3 || range_next_to_other {
                l.nt(hash64(inp));
                l.label(if range_next_to_other { "range_adjacent_to_entry" } else { "three_or_more_class_runs" });
                if l.want_sample() {
                    l.sample(json!({"unicode_data_lines": inp.unicode_data_text().lines().take(12).collect::<Vec<_>>(), "entries": inp.ents.len(), "tables_checked": rep.tables, "lookups": rep.lookups}));
                }
            }
            Ok(())
        }
        Err((e, o)) => Err(Violation::new(case(), e, o)),
    }
}

fn non_char(cp: u32) -> bool {
    (0xfdd0..=0xfdef).contains(&cp) || (cp & 0xfffe) == 0xfffe
}

/// strategy for synthetic inputs
pub fn input_strategy() -> BoxedStrategy<Input> {
    // entry spec: (gap, len, gc, ccc, bidi, dec, same_as_prev, target)
    let gap = prop_oneof![55 => Just(0u32), 30 => 1u32..4, 10 => 4u32..200, 4 => 200u32..0x4000, 1 => 0x4000u32..0x60000];
    let len = prop_oneof![60 => Just(0u32), 25 => 1u32..6, 12 => 6u32..300, 3 => 300u32..20000];
    let ent = (gap, len, 1u8..30, prop_oneof![6 => Just(0u8), 2 => Just(9u8), 2 => 1u8..=254], 0u8..23, prop_oneof![6 => Just(0u8), 1 => Just(1u8), 2 => Just(2u8), 2 => Just(3u8), 2 => Just(4u8)], 0u8..10, 0x20u32..0x3000);
    let props = |nvals: u8| vec((prop_oneof![30 => 0u32..3, 20 => 3u32..40, 10 => 40u32..3000, 1 => 65530u32..65540], prop_oneof![20 => Just(0u32), 20 => 1u32..8, 10 => 8u32..200, 1 => 65530u32..65537, 1 => 20000u32..46000], 0..nvals), 0..12);
    (prop_oneof![6 => Just(0u32), 4 => 0u32..0x100, 2 => 0u32..0x2000, 2 => 0xd7c0u32..0xd810, 1 => 0xdfc0u32..0xe010, 1 => 0xfd80u32..0xfdd0, 1 => 0xff80u32..0xfff0, 1 => 0x10ff00u32..0x10fff0], prop_oneof![30 => vec(ent.clone(), 0..40), 2 => vec(ent.clone(), 200..700), 1 => vec(ent, 700..2500)], props(7), props(6), props(3), props(2), props(5), any::<u8>(), vec(prop_oneof![6 => Just(0u32), 2 => 0xd7c0u32..0xd810, 2 => 0xdfc0u32..0xe010, 2 => 0x10ff00u32..0x10fff0, 1 => Just(0x30000u32), 1 => Just(0x2fffeu32), 1 => Just(0x20001u32)], 5))
        .prop_map(|(base, specs, sc, jt, pl, cp, hg, block_order, pbases)| {
            let mut ents = Vec::new();
            let mut pos = base as u64;
            let mut prev: Option<(u8, u8, u8)> = None;
            for (gap, len, gc, ccc, bidi, dec, same, target) in specs {
                let start = pos + gap as u64;
                let end = start + len as u64;
                if end > 0x10fffd {
                    break;
                }
                // never assign noncharacters (no Unicode version does)
                if (start..=end).any(|c| non_char(c as u32)) && len < 70000 {
                    pos = end + 1;
                    continue;
                }
                let (gc, ccc, bidi) = match (prev, same < 5) {
                    (Some(p), true) => (if same < 3 { p.0 } else { gc }, ccc, p.2),
                    _ => (gc, ccc, bidi),
                };
                let dec = if len > 0 { 0 } else { dec };
                // relations between the fields of one line: a decomposition that names the code point itself / its neighbour
                let target = match same {
                    9 => start as u32,
                    8 => start as u32 + 1,
                    _ => target,
                };
                ents.push(Ent { start: start as u32, end: end as u32, gc, ccc, bidi, dec, dtarget: target });
                prev = Some((gc, ccc, bidi));
                pos = end + 1;
            }
            // sometimes repeat the first entries one and two planes up (same low 16 bits): guards keyed on truncated code points
            if block_order % 5 == 0 && !ents.is_empty() {
                let last_end = ents.last().unwrap().end;
                let firsts: Vec<Ent> = ents.iter().take(6).cloned().collect();
                for shift in [0x10000u32, 0x20000] {
                    for e in &firsts {
                        let (s2, e2) = (e.start + shift, e.end + shift);
                        if s2 > ents.last().unwrap().end && s2 > last_end && e2 <= 0x10fffd && !(s2..=e2).any(non_char) {
                            ents.push(Ent { start: s2, end: e2, ..e.clone() });
                        }
                    }
                }
            }
            let lay = |v: Vec<(u32, u32, u8)>, which: usize| -> Vec<(u32, u32, u8)> {
                // turn (gap,len,val) into disjoint intervals; each property file has its own base (0 = same window as UnicodeData)
                let mut out = Vec::new();
                let mut p = if pbases[which] == 0 { base as u64 } else { pbases[which] as u64 };
                for (g, n, val) in v {
                    let a = p + g as u64;
                    let b = a + n as u64;
                    if b > 0x10ffff {
                        break;
                    }
                    out.push((a as u32, b as u32, val));
                    p = b + 1;
                }
                out
            };
            // one input in four drives the generators in another legitimate way (duplicate tables / parse once, emit twice)
            let cfg = if block_order & 0x0c == 0x0c { [1u8, 2, 3, 6, 7][(block_order >> 4) as usize % 5] } else { 0 };
            Input { ents, scripts: lay(sc, 0), joining: lay(jt, 1), proplist: lay(pl, 2), coreprops: lay(cp, 3), hangul: lay(hg, 4), block_order, alt_names: block_order & 1 == 1, cfg }
        })
        .boxed()
}

/// variations of the pinned files: operations on the list of UnicodeData lines
#[derive(Clone, Debug)]
pub enum VarOp {
    DropBlock(u32, u32),
    FlipBidi(u32, u8),
    FlipGc(u32, u8),
    MergeRun(u32),
    InsertInGap(u32, u8, u8),
    TruncateTail(u32),
}

fn apply_variation(lines: &[ULine], ops: &[VarOp]) -> Vec<ULine> {
    let mut v: Vec<ULine> = lines.to_vec();
    let is_first = |l: &ULine| l.name.ends_with(", First>");
    let is_last = |l: &ULine| l.name.ends_with(", Last>");
    for op in ops {
        let n = v.len();
        if n < 10 {
            break;
        }
        let idx = |r: u32| ((r as u64 * n as u64) >> 32) as usize;
        match op {
            VarOp::DropBlock(r, len) => {
                let mut a = idx(*r);
                let mut b = (a + *len as usize).min(n);
                // keep First/Last pairs intact
                if a > 0 && is_last(&v[a]) {
                    a -= 1;
                }
                if b < n && is_last(&v[b]) {
                    b += 1;
                }
                v.drain(a..b);
            }
            VarOp::FlipBidi(r, c) => {
                let i = idx(*r);
                let nb = BIDI_NAMES[*c as usize % 23].to_string();
                if is_first(&v[i]) {
                    v[i + 1].bidi = nb.clone();
                } else if is_last(&v[i]) {
                    v[i - 1].bidi = nb.clone();
                }
                v[i].bidi = nb;
            }
            VarOp::FlipGc(r, c) => {
                let i = idx(*r);
                let ng = GC_NAMES[1 + *c as usize % 29].to_string();
                if is_first(&v[i]) {
                    v[i + 1].gc = ng.clone();
                } else if is_last(&v[i]) {
                    v[i - 1].gc = ng.clone();
                }
                v[i].gc = ng;
            }
            VarOp::MergeRun(r) => {
                // merge a run of consecutive single lines with identical gc/bidi/ccc and no decomposition into a First/Last pair
                let i = idx(*r);
                if is_first(&v[i]) || is_last(&v[i]) || !v[i].decomp.is_empty() {
                    continue;
                }
                let mut j = i;
                while j + 1 < n
                    && v[j + 1].cp == v[j].cp + 1
                    && !is_first(&v[j + 1])
                    && v[j + 1].gc == v[i].gc
                    && v[j + 1].bidi == v[i].bidi
                    && v[j + 1].ccc == v[i].ccc
                    && v[j + 1].decomp.is_empty()
                {
                    j += 1;
                }
                if j > i {
                    let mut first = v[i].clone();
                    first.name = "<Merged, First>".into();
                    let mut last = v[j].clone();
                    last.name = "<Merged, Last>".into();
                    v.splice(i..=j, [first, last]);
                }
            }
            VarOp::InsertInGap(r, g, b) => {
                let i = idx(*r);
                if i + 1 < n && !is_first(&v[i]) && v[i + 1].cp > v[i].cp + 1 {
                    let cp = v[i].cp + 1;
                    if !non_char(cp) {
                        let nl = ULine { cp, name: format!("INSERTED-{cp:04X}"), gc: GC_NAMES[1 + *g as usize % 29].into(), ccc: 0, bidi: BIDI_NAMES[*b as usize % 23].into(), decomp: String::new() };
                        v.insert(i + 1, nl);
                    }
                }
            }
            VarOp::TruncateTail(r) => {
                let mut i = idx(*r).max(8);
                if is_last(&v[i.min(n - 1)]) {
                    i += 1;
                }
                v.truncate(i.min(n));
            }
        }
    }
    v
}

fn write_lines(lines: &[ULine], path: &Path) {
    let mut s = String::new();
    for l in lines {
        s.push_str(&format!("{:04X};{};{};{};{};{};;;;N;;;;;\n", l.cp, l.name, l.gc, l.ccc, l.bidi, l.decomp));
    }
    std::fs::write(path, s).unwrap();
}

fn link_pinned_props(dir: &Path) {
    let d = ucd::data_dir().join("ucd63");
    std::fs::create_dir_all(dir.join("extracted")).unwrap();
    for f in ["Scripts.txt", "PropList.txt", "DerivedCoreProperties.txt", "HangulSyllableType.txt", "extracted/DerivedJoiningType.txt"] {
        let _ = std::fs::remove_file(dir.join(f));
        std::os::unix::fs::symlink(d.join(f), dir.join(f)).expect("symlink");
    }
}

fn check_dir(case: Value, ucd_dir: &Path, out: &Path, full: bool, with_props: bool, l: &mut Local) -> Check {
    check_dir_x(case, ucd_dir, out, full, with_props, l, false)
}
fn check_dir_x(case: Value, ucd_dir: &Path, out: &Path, full: bool, with_props: bool, l: &mut Local, cross: bool) -> Check {
    l.eval();
    match guard(|| run_generators(ucd_dir, out)) {
        Ok(Ok(())) => {}
        Ok(Err(e)) => return Err(Violation::new(case, "generators accept a well-formed UCD input", format!("Err: {e}"))),
        Err(p) => return Err(Violation::new(case, "generators accept a well-formed UCD input", format!("panic: {p}"))),
    }
    let truth = read_truth(ucd_dir, with_props);
    match check_tables_x(&truth, out, full, with_props, cross) {
        Ok(rep) => {
            l.evals_n(rep.lookups);
            if cross {
                l.label("emitted_text_cross_checked_with_rustc");
            }
            Ok(())
        }
        Err((e, o)) => Err(Violation::new(case, e, o)),
    }
}

fn var_strategy() -> BoxedStrategy<(u8, Vec<VarOp>)> {
    let op = prop_oneof![
        2 => (any::<u32>(), 1u32..400).prop_map(|(r, n)| VarOp::DropBlock(r, n)),
        3 => (any::<u32>(), 0u8..23).prop_map(|(r, c)| VarOp::FlipBidi(r, c)),
        2 => (any::<u32>(), 0u8..29).prop_map(|(r, c)| VarOp::FlipGc(r, c)),
        3 => any::<u32>().prop_map(VarOp::MergeRun),
        2 => (any::<u32>(), 0u8..29, 0u8..23).prop_map(|(r, g, b)| VarOp::InsertInGap(r, g, b)),
        1 => any::<u32>().prop_map(VarOp::TruncateTail),
    ];
    (0u8..2, vec(op, 1..40)).boxed()
}

fn var_json(which: u8, ops: &[VarOp]) -> Value {
    json!({"op": "pinned_variation", "base": if which == 0 { "6.3.0" } else { "16.0.0" }, "ops": ops.iter().map(|o| match o {
        VarOp::DropBlock(r, n) => json!(["drop", r, n]),
        VarOp::FlipBidi(r, c) => json!(["bidi", r, c]),
        VarOp::FlipGc(r, c) => json!(["gc", r, c]),
        VarOp::MergeRun(r) => json!(["merge", r]),
        VarOp::InsertInGap(r, g, b) => json!(["insert", r, g, b]),
        VarOp::TruncateTail(r) => json!(["truncate", r]),
    }).collect::<Vec<_>>()})
}
fn var_from_json(v: &Value) -> (u8, Vec<VarOp>) {
    let which = if v["base"].as_str() == Some("6.3.0") { 0 } else { 1 };
    let ops = v["ops"].as_array().unwrap().iter().map(|o| {
        let g = |i: usize| o[i].as_u64().unwrap();
        match o[0].as_str().unwrap() {
            "drop" => VarOp::DropBlock(g(1) as u32, g(2) as u32),
            "bidi" => VarOp::FlipBidi(g(1) as u32, g(2) as u8),
            "gc" => VarOp::FlipGc(g(1) as u32, g(2) as u8),
            "merge" => VarOp::MergeRun(g(1) as u32),
            "insert" => VarOp::InsertInGap(g(1) as u32, g(2) as u8, g(3) as u8),
            _ => VarOp::TruncateTail(g(1) as u32),
        }
    }).collect();
    (which, ops)
}

fn pinned_lines(which: u8) -> Vec<ULine> {
    let f = if which == 0 { "ucd63/UnicodeData.txt" } else { "ucd16/UnicodeData.txt" };
    ucd::parse_unicode_data_lines(&ucd::read(&ucd::data_dir().join(f)))
}

fn check_variation(which: u8, ops: &[VarOp], base_lines: &[ULine], dir: &Path, l: &mut Local) -> Check {
    let lines = apply_variation(base_lines, ops);
    let ucd_dir = dir.join("ucd");
    std::fs::create_dir_all(&ucd_dir).unwrap();
    link_pinned_props(&ucd_dir);
    write_lines(&lines, &ucd_dir.join("UnicodeData.txt"));
    let r = check_dir(var_json(which, ops), &ucd_dir, &dir.join("out"), false, false, l);
    if r.is_ok() {
        l.nt(hash64(&format!("{:?}", (which, ops))));
        l.label("pinned_variation");
    }
    r
}

/// the pinned directory `which` (0: 6.3.0, 1: the 16.0.0 UnicodeData next to the 6.3.0 property files) through the generators, every
/// table at all code points; cfg 0: as the build.rs files drive them (also read by rustc); cfg 3: every table under two identifiers,
/// parsed once and emitted twice, both emissions checked
fn check_pinned(which: usize, cfg: u8, tag: &str, l: &mut Local) -> Check {
    let dir = work_dir(tag);
    let ucd_dir = dir.join("ucd");
    std::fs::create_dir_all(&ucd_dir).unwrap();
    link_pinned_props(&ucd_dir);
    let src = ucd::data_dir().join(if which == 0 { "ucd63/UnicodeData.txt" } else { "ucd16/UnicodeData.txt" });
    let _ = std::fs::remove_file(ucd_dir.join("UnicodeData.txt"));
    std::os::unix::fs::symlink(src, ucd_dir.join("UnicodeData.txt")).unwrap();
    let case = json!({"op": "pinned", "base": if which == 0 { "6.3.0" } else { "16.0.0" }, "cfg": cfg});
    let r = if cfg == 0 {
        // property files are the 6.3.0 ones in both cases (16.0.0 ships only UnicodeData in the repository)
        check_dir_x(case, &ucd_dir, &dir.join("out"), true, true, l, true)
    } else {
        let out2 = dir.join("out-cfg");
        match guard(|| run_generators_cfg(&ucd_dir, &out2, false, cfg & 1 != 0, cfg & 2 != 0)) {
            Ok(Ok(())) => {
                let truth = read_truth(&ucd_dir, true);
                let mut r = Ok(());
                for sub in if cfg & 2 != 0 { vec!["first", "second"] } else { vec![""] } {
                    match check_tables_x(&truth, &out2.join(sub), true, true, false) {
                        Ok(rep) => l.evals_n(rep.lookups),
                        Err((e, o)) => {
                            r = Err(Violation::new(case.clone(), format!("{sub} emission (every table under two identifiers; parsed once, emitted twice): {e}"), o));
                            break;
                        }
                    }
                }
                r
            }
            Ok(Err(e)) => Err(Violation::new(case, "generators accept a well-formed UCD input", format!("Err: {e}"))),
            Err(p) => Err(Violation::new(case, "generators accept a well-formed UCD input", format!("panic: {p}"))),
        }
    };
    let _ = std::fs::remove_dir_all(&dir);
    r
}

pub fn run(run: &Run) {
    run.set_rule(
        "Generator ('configurations'): (a) the pinned UCD 6.3.0 directory and the pinned 16.0.0 UnicodeData.txt, every table compared at all 1,114,112 code points; \
         (b) proptest synthetic UCD directories written under /verif/work: UnicodeData.txt with strictly increasing entries (0..40 entries, one input in eleven with 200..2500; single lines and First/Last pairs, \
         adjacent and non-adjacent, gaps from 0 to 0x60000, windows at 0, around the surrogate block, U+E000, U+FDD0, U+FFF0 and U+10FFF0, any of the 29 assigned categories, ccc incl. 9, all 23 bidi classes with run structure, decomposition \
         none/canonical/<wide>/<narrow>/<compat>) plus synthetic Scripts, DerivedJoiningType, PropList, DerivedCoreProperties and HangulSyllableType files (single and \
         a..b lines, property blocks in generated order); (b2) a table-size sweep: inputs of isolated code points spread over 20 categories so that every table size 1..=1200 (quick) / 1..=10000 (thorough) and \
         4095..4097, 8191..8193, 16383..16385 (thorough also 20000, 32767..32769, 65535..65537) is emitted at least once (probed at every 97th boundary and at both ends); half of all inputs use table identifiers \
         that differ from the property value they are built from; (c) proptest variations of the pinned UnicodeData files (drop line blocks, flip bidi class / category on \
         lines, merge runs of equal singles into First/Last pairs, insert lines into gaps, truncate the tail), compared at all code points. Never assigns \
         noncharacters (no Unicode version does). The real generators run through their public API configured as in the two build.rs files; emitted Rust text is \
         read back into Vec<precis_core::Codepoints> and searched with the library's binary_search_by(partial_cmp). Oracle: my own parse of the same input files: \
         found <=> assigned (sets, unassigned gaps, virama, scripts, joining, property sets), value == input value (bidi, with L == default; width), declared \
         length == entries, no code point in two entries with different values, binary search <=> linear scan. Non-trivial: a First/Last range adjacent to \
         another entry, or >= 3 bidi class runs, or any pinned variation; distinct = distinct input.",
    );
    run.assume("inputs never assign noncharacter code points and never exceed U+10FFFD (as in every Unicode version); First and Last lines carry identical fields; wide/narrow decompositions have a single target");
    run.assume("the emitted Rust text is read by a small reader for the generators' current syntax; the pinned outputs and a sample of the synthetic ones are also read by rustc (a program that include!s the emitted files next to the Codepoints template) and both readers must agree; if the syntax changes the rustc reader takes over; text that does not compile is a violation, text neither reader understands is exit 2");

    // (a) pinned directories
    run.par("pinned", true, |tid, _n, l| {
        if tid > 1 {
            return;
        }
        for cfg in [0u8, 3] {
            l.cases += 1;
            match check_pinned(tid, cfg, &format!("pinned{tid}"), l) {
                Ok(()) => l.nt(hash64(&("pinned", tid, cfg))),
                Err(v) => run.violate(v),
            }
        }
    });

    // (b) synthetic
    let quick = run.quick();
    run.prop("synthetic", run.pick(20_000, 400_000), input_strategy, |inp, l| {
        let dir = work_dir(&format!("syn{}", l.tid));
        // a sample of the emitted files is also read by the compiler (validates my text reader)
        let cross = !l.frozen && l.tid < 4 && if quick { l.cases == 5 } else { l.cases % 4000 == 5 };
        check_input_x(inp, &dir, l, cross)
    });

    // (b2) table-size sweep: isolated single code points spread over 20 categories so that one input yields 20+ tables of
    // different, chosen sizes; every size 1..=S is produced (S = 1200 quick, 10000 thorough) plus sizes around 4096/8192/16384 (thorough: up to 65537)
    let smax = run.pick(1200usize, 10000usize);
    let sizes: Vec<usize> = (1..=smax).collect();
    let cats: [u8; 20] = [1, 2, 5, 9, 4, 6, 7, 19, 20, 21, 22, 12, 13, 14, 15, 16, 17, 18, 3, 10];
    let mut batches: Vec<Vec<usize>> = sizes.chunks(20).map(|c| c.to_vec()).collect();
    // larger sizes one or three per input
    batches.push(vec![4095, 4096, 4097]);
    batches.push(vec![8191, 8192, 8193]);
    batches.push(vec![16383, 16384, 16385]);
    if !run.quick() {
        for big in [20000usize, 32767, 32768, 32769, 65535, 65536, 65537] {
            batches.push(vec![big]);
        }
    }
    let batches = &batches;
    run.par("table_size_sweep", true, |tid, n, l| {
        for (bi, batch) in batches.iter().enumerate() {
            if bi % n != tid {
                continue;
            }
            if run.stopped() {
                return;
            }
            let mut ents = Vec::new();
            let mut cp = 0x100u32;
            for (j, count) in batch.iter().enumerate() {
                for _ in 0..*count {
                    while non_char(cp) || (0xd7f0..0xe010).contains(&cp) {
                        cp += 1;
                    }
                    ents.push(Ent { start: cp, end: cp, gc: cats[j], ccc: 0, bidi: (j % 23) as u8, dec: 0, dtarget: 0 });
                    cp += 2;
                }
            }
            if cp > 0x10fff0 {
                continue;
            }
            let inp = Input { ents, alt_names: bi % 2 == 1, ..Input::default() };
            let dir = work_dir(&format!("size{tid}"));
            l.cases += 1;
            PROBE_STRIDE.with(|s| s.set(97));
            let r = check_input(&inp, &dir, l);
            PROBE_STRIDE.with(|s| s.set(1));
            if let Err(mut v) = r {
                v.case = json!({"op": "table_sizes", "sizes_per_category": batch, "alt_names": bi % 2 == 1});
                run.violate(v);
                return;
            }
        }
    });

    // (b3) regeneration in place: the same input path and the same output path are used for two different inputs of the SAME byte
    // length, the second one written with the first one's modification time (cp -p, rsync -t, reproducible-build sandboxes),
    // and the second output is shorter than the first
    run.par("regenerate_in_place", true, |tid, _n, l| {
        if tid != 0 {
            return;
        }
        let dir = work_dir("inplace");
        let mk = |gcs: &[u8]| Input { ents: gcs.iter().enumerate().map(|(i, g)| Ent { start: 0x41 + 2 * i as u32, end: 0x41 + 2 * i as u32, gc: *g, ccc: 0, bidi: 0, dec: 0, dtarget: 0 }).collect(), ..Input::default() };
        let seqs: [(&[u8], &[u8]); 4] = [(&[1, 1, 2, 2], &[1, 2, 2, 1]), (&[1, 1, 1, 1, 1, 1], &[2, 2, 2, 2, 2, 2]), (&[5, 9, 5, 9], &[9, 5, 9, 5]), (&[1, 2], &[2, 1])];
        for (first, second) in seqs {
            let (a, b) = (mk(first), mk(second));
            l.cases += 1;
            if let Err(v) = check_input(&a, &dir, l) {
                run.violate(v);
                return;
            }
            let udata = dir.join("ucd/UnicodeData.txt");
            let mtime = std::fs::metadata(&udata).and_then(|m| m.modified()).ok();
            // write the second input over the first (same length by construction), restore the mtime, regenerate into the same out dir
            b.write(&dir.join("ucd"));
            if let (Some(t), Ok(f)) = (mtime, std::fs::OpenOptions::new().write(true).open(&udata)) {
                let _ = f.set_modified(t);
            }
            let out = dir.join("out");
            let r = match guard(|| run_generators_x(&dir.join("ucd"), &out, false)) {
                Ok(Ok(())) => check_tables(&read_truth(&dir.join("ucd"), true), &out, false, true).map(|_| ()),
                Ok(Err(e)) => Err(("generators accept a well-formed UCD input".to_string(), e)),
                Err(p) => Err(("no panic".to_string(), p)),
            };
            if let Err((e, o)) = r {
                run.violate(Violation::new(json!({"op": "regenerate_in_place", "first_gcs": first, "second_gcs": second, "note": "second input written over the first with the same length and the first's mtime; same output directory"}), e, o));
                return;
            }
            // and a much shorter input into the same output directory (output files must be truncated)
            let short = mk(&first[..1]);
            if let Err(v) = check_input_keep(&short, &dir, l) {
                run.violate(v);
                return;
            }
        }
        let _ = std::fs::remove_dir_all(&dir);
    });

    // (c) pinned variations
    let lines = [pinned_lines(0), pinned_lines(1)];
    run.prop("pinned_variations", run.pick(64, 2_000), var_strategy, |(which, ops), l| {
        let dir = work_dir(&format!("var{}", l.tid));
        check_variation(*which, ops, &lines[*which as usize], &dir, l)
    });

    // clean scratch space
    if let Ok(rd) = std::fs::read_dir(ucd::verif_dir().join("work")) {
        for e in rd.flatten() {
            if e.file_name().to_string_lossy().starts_with(&format!("c15-{}-", std::process::id())) {
                let _ = std::fs::remove_dir_all(e.path());
            }
        }
    }
}

pub fn replay(_run: &Run, case: &Value) -> Check {
    let mut l = Local::default();
    let dir = work_dir("replay");
    let r = match case["op"].as_str() {
        Some("synthetic_ucd") => check_input(&Input::from_json(&case["input"]), &dir, &mut l),
        Some("pinned_variation") => {
            let (which, ops) = var_from_json(case);
            check_variation(which, &ops, &pinned_lines(which), &dir, &mut l)
        }
        Some("pinned") => check_pinned(if case["base"].as_str() == Some("6.3.0") { 0 } else { 1 }, case["cfg"].as_u64().unwrap_or(0) as u8, &format!("replay-pinned-{}", std::process::id()), &mut l),
        Some("regenerate_in_place") => Ok(()),
        Some("table_sizes") => {
            let cats: [u8; 20] = [1, 2, 5, 9, 4, 6, 7, 19, 20, 21, 22, 12, 13, 14, 15, 16, 17, 18, 3, 10];
            let mut ents = Vec::new();
            let mut cp = 0x100u32;
            for (j, count) in case["sizes_per_category"].as_array().unwrap().iter().enumerate() {
                for _ in 0..count.as_u64().unwrap() {
                    while non_char(cp) || (0xd7f0..0xe010).contains(&cp) {
                        cp += 1;
                    }
                    ents.push(Ent { start: cp, end: cp, gc: cats[j], ccc: 0, bidi: (j % 23) as u8, dec: 0, dtarget: 0 });
                    cp += 2;
                }
            }
            let inp = Input { ents, alt_names: case["alt_names"].as_bool().unwrap_or(false), ..Input::default() };
            PROBE_STRIDE.with(|s| s.set(97));
            let r = check_input(&inp, &dir, &mut l);
            PROBE_STRIDE.with(|s| s.set(1));
            r
        }
        _ => panic!("unknown C15 case"),
    };
    let _ = std::fs::remove_dir_all(&dir);
    r
}

#[allow(dead_code)]
fn _unused() {
    let _ = bidi_idx("L");
}
