//! C16 — results depend only on the arguments, not on API form, history or threads
use super::pipe::strings_for;
use crate::engine::*;
use crate::model::*;
use precis_core::profile::{PrecisFastInvocation, Profile};
use precis_core::Error;
use precis_profiles::{Nickname, OpaqueString, UsernameCaseMapped, UsernameCasePreserved};
use proptest::collection::vec;
use proptest::prelude::*;
use serde_json::{json, Value};
use std::borrow::Cow;
use std::sync::OnceLock;

pub trait Mk: Profile + PrecisFastInvocation + Default + Sync + Send + 'static {
    fn mk_new() -> Self;
    fn shared() -> &'static Self;
}
macro_rules! mk {
    ($t:ty, $cell:ident) => {
        static $cell: OnceLock<$t> = OnceLock::new();
        impl Mk for $t {
            fn mk_new() -> Self {
                <$t>::new()
            }
            fn shared() -> &'static Self {
                $cell.get_or_init(<$t>::new)
            }
        }
    };
}
mk!(UsernameCaseMapped, SH_UM);
mk!(UsernameCasePreserved, SH_UP);
mk!(OpaqueString, SH_OP);
mk!(Nickname, SH_NI);

/// an owned copy with a lot of unused capacity (in-place fast paths for owned inputs)
fn roomy(a: &str) -> String {
    let mut s = String::with_capacity(a.len() * 3 + 257);
    s.push_str(a);
    s
}

fn o(r: Result<Cow<'_, str>, Error>) -> RRes {
    obs(&r)
}
fn ob(r: Result<bool, Error>) -> Result<bool, RErr> {
    r.map_err(|e| rerr(&e))
}

#[derive(Clone, Copy, Debug, PartialEq, Eq, Hash)]
pub enum Kind {
    Prepare,
    Enforce,
    Compare,
}
const KINDS: [Kind; 3] = [Kind::Prepare, Kind::Enforce, Kind::Compare];

/// every API form x argument form of one operation; returns (form name, result) pairs
fn all_forms<P: Mk>(kind: Kind, long_lived: &P, a: &str, b: &str) -> Vec<(&'static str, Result<String, RErr>)> {
    let fresh_new = P::mk_new();
    let fresh_def = P::default();
    let shared = P::shared();
    let cmp = |r: Result<bool, RErr>| r.map(|x| x.to_string());
    let mut v: Vec<(&'static str, Result<String, RErr>)> = Vec::new();
    match kind {
        Kind::Prepare | Kind::Enforce => {
            macro_rules! call {
                ($name:expr, $recv:expr) => {
                    if kind == Kind::Prepare {
                        v.push((concat!($name, "/&str"), o($recv.prepare(a))));
                        v.push((concat!($name, "/String"), o($recv.prepare(a.to_string()))));
                        v.push((concat!($name, "/Cow::Borrowed"), o($recv.prepare(Cow::Borrowed(a)))));
                        v.push((concat!($name, "/Cow::Owned"), o($recv.prepare(Cow::<str>::Owned(a.to_string())))));
                        v.push((concat!($name, "/String with spare capacity"), o($recv.prepare(roomy(a)))));
                    } else {
                        v.push((concat!($name, "/&str"), o($recv.enforce(a))));
                        v.push((concat!($name, "/String"), o($recv.enforce(a.to_string()))));
                        v.push((concat!($name, "/Cow::Borrowed"), o($recv.enforce(Cow::Borrowed(a)))));
                        v.push((concat!($name, "/Cow::Owned"), o($recv.enforce(Cow::<str>::Owned(a.to_string())))));
                        v.push((concat!($name, "/String with spare capacity"), o($recv.enforce(roomy(a)))));
                        v.push((concat!($name, "/Cow::Owned with spare capacity"), o($recv.enforce(Cow::<str>::Owned(roomy(a))))));
                    }
                };
            }
            call!("fresh new()", fresh_new);
            call!("fresh default()", fresh_def);
            call!("long-lived per thread", long_lived);
            call!("shared by all threads", shared);
            // the same text as a view into a larger buffer: the pointer starts 1..15 and 8 bytes after an allocation boundary
            {
                let (mut b1, mut b2) = (String::new(), String::new());
                let k = 1 + (a.len() * 7 + a.bytes().next().unwrap_or(0) as usize) % 15;
                let (v1, v2) = (view_at(&mut b1, a, k), view_at(&mut b2, a, 8));
                if kind == Kind::Prepare {
                    v.push(("fresh new()/&str at an odd pointer offset", o(fresh_new.prepare(v1))));
                    v.push(("static/&str 8 bytes into a buffer", o(<P as PrecisFastInvocation>::prepare(v2))));
                } else {
                    v.push(("fresh new()/&str at an odd pointer offset", o(fresh_new.enforce(v1))));
                    v.push(("static/&str 8 bytes into a buffer", o(<P as PrecisFastInvocation>::enforce(v2))));
                }
            }
            // the same call made from inside the rule function of an enclosing stabilize (an application-defined profile layered on
            // top of the library's own fixed-point helper)
            {
                let slot: std::cell::RefCell<Option<Result<String, RErr>>> = std::cell::RefCell::new(None);
                let _ = precis_core::profile::stabilize("Some Label", |s: &str| -> Result<Cow<'_, str>, precis_core::Error> {
                    if slot.borrow().is_none() {
                        let r = if kind == Kind::Prepare { o(fresh_new.prepare(a)) } else { o(<P as PrecisFastInvocation>::enforce(a)) };
                        *slot.borrow_mut() = Some(r);
                    }
                    Ok(Cow::Owned(s.to_lowercase()))
                });
                if let Some(r) = slot.into_inner() {
                    v.push(("inside the rule function of an enclosing stabilize", r));
                }
            }
            if kind == Kind::Prepare {
                v.push(("static/&str", o(<P as PrecisFastInvocation>::prepare(a))));
                v.push(("static/String", o(<P as PrecisFastInvocation>::prepare(a.to_string()))));
                v.push(("static/Cow::Borrowed", o(<P as PrecisFastInvocation>::prepare(Cow::Borrowed(a)))));
                v.push(("static/Cow::Owned", o(<P as PrecisFastInvocation>::prepare(Cow::<str>::Owned(a.to_string())))));
            } else {
                v.push(("static/&str", o(<P as PrecisFastInvocation>::enforce(a))));
                v.push(("static/String", o(<P as PrecisFastInvocation>::enforce(a.to_string()))));
                v.push(("static/Cow::Borrowed", o(<P as PrecisFastInvocation>::enforce(Cow::Borrowed(a)))));
                v.push(("static/Cow::Owned", o(<P as PrecisFastInvocation>::enforce(Cow::<str>::Owned(a.to_string())))));
            }
        }
        Kind::Compare => {
            let (sa, sb) = (a.to_string(), b.to_string());
            macro_rules! call {
                ($name:expr, $recv:expr) => {
                    v.push((concat!($name, "/&str,&str"), cmp(ob($recv.compare(a, b)))));
                    v.push((concat!($name, "/String,String"), cmp(ob($recv.compare(sa.clone(), sb.clone())))));
                    v.push((concat!($name, "/&String,&str"), cmp(ob($recv.compare(&sa, b)))));
                    v.push((concat!($name, "/Cow,Cow"), cmp(ob($recv.compare(Cow::Borrowed(a), Cow::<str>::Owned(sb.clone()))))));
                };
            }
            call!("fresh new()", fresh_new);
            call!("fresh default()", fresh_def);
            call!("long-lived per thread", long_lived);
            call!("shared by all threads", shared);
            {
                let (mut b1, mut b2) = (String::new(), String::new());
                let k = 1 + (a.len() * 7 + b.len()) % 15;
                let (v1, v2) = (view_at(&mut b1, a, k), view_at(&mut b2, b, (k + 5) % 16));
                v.push(("fresh new()/&str,&str at odd pointer offsets", cmp(ob(fresh_new.compare(v1, v2)))));
            }
            {
                let slot: std::cell::RefCell<Option<Result<String, RErr>>> = std::cell::RefCell::new(None);
                let _ = precis_core::profile::stabilize("Some Label", |s: &str| -> Result<Cow<'_, str>, precis_core::Error> {
                    if slot.borrow().is_none() {
                        let r = cmp(ob(fresh_new.compare(a, b)));
                        *slot.borrow_mut() = Some(r);
                    }
                    Ok(Cow::Owned(s.to_lowercase()))
                });
                if let Some(r) = slot.into_inner() {
                    v.push(("inside the rule function of an enclosing stabilize", r));
                }
            }
            v.push(("static/&str,&str", cmp(ob(<P as PrecisFastInvocation>::compare(a, b)))));
            v.push(("static/String,String", cmp(ob(<P as PrecisFastInvocation>::compare(sa.clone(), sb.clone())))));
            v.push(("static/&String,&str", cmp(ob(<P as PrecisFastInvocation>::compare(&sa, b)))));
        }
    }
    v
}

struct LongLived {
    um: UsernameCaseMapped,
    up: UsernameCasePreserved,
    op: OpaqueString,
    ni: Nickname,
}
thread_local! {
    static LL: LongLived = LongLived { um: UsernameCaseMapped::new(), up: UsernameCasePreserved::default(), op: OpaqueString::new(), ni: Nickname::default() };
}

fn forms(p: Prof, kind: Kind, a: &str, b: &str) -> Vec<(&'static str, Result<String, RErr>)> {
    LL.with(|ll| match p {
        Prof::UserMapped => all_forms(kind, &ll.um, a, b),
        Prof::UserPreserved => all_forms(kind, &ll.up, a, b),
        Prof::Opaque => all_forms(kind, &ll.op, a, b),
        Prof::Nick => all_forms(kind, &ll.ni, a, b),
    })
}

/// the same reference call made on a brand-new thread: no thread-local state of earlier calls can reach it
fn fresh_on_new_thread(p: Prof, kind: Kind, a: &str, b: &str) -> Result<String, RErr> {
    std::thread::scope(|s| s.spawn(|| fresh(p, kind, a, b)).join().expect("reference thread"))
}

/// the reference for one call: a fresh instance, borrowed arguments
fn fresh(p: Prof, kind: Kind, a: &str, b: &str) -> Result<String, RErr> {
    match kind {
        Kind::Prepare => imp_prepare(p, a),
        Kind::Enforce => imp_enforce(p, a),
        Kind::Compare => imp_compare(p, a, b).map(|x| x.to_string()),
    }
}

fn kind_name(k: Kind) -> &'static str {
    match k {
        Kind::Prepare => "prepare",
        Kind::Enforce => "enforce",
        Kind::Compare => "compare",
    }
}

pub fn check_forms(p: Prof, kind: Kind, a: &str, b: &str, l: &mut Local) -> Check {
    let case = || json!({"op": "api_forms", "profile": p.name(), "call": kind_name(kind), "a": jstr(a), "b": jstr(b)});
    // for every 8th case the reference is computed on a brand-new thread (pristine thread-local state)
    let new_thread = l.cases % 8 == 0;
    let reference = guard(|| if new_thread { fresh_on_new_thread(p, kind, a, b) } else { fresh(p, kind, a, b) }).map_err(|pn| Violation::new(case(), "no panic", pn))?;
    let all = guard(|| forms(p, kind, a, b)).map_err(|pn| Violation::new(case(), "no panic", pn))?;
    l.evals_n(all.len() as u64 + 1);
    for (name, r) in &all {
        if *r != reference {
            return Err(Violation::new(case(), format!("every form returns {:?}", reference), format!("{name} returned {r:?}")));
        }
    }
    let nt = match (&reference, kind) {
        (Ok(x), Kind::Prepare | Kind::Enforce) => x != a,
        (Ok(_), Kind::Compare) => a != b,
        _ => false,
    };
    if nt {
        l.nt(hash64(&(p, kind, a, b)));
        l.label("accepted_and_changed_or_distinct_pair");
        if l.want_sample() {
            l.sample(json!({"profile": p.name(), "call": kind_name(kind), "a": esc(a), "b": esc(b), "forms_compared": all.len(), "result": format!("{reference:?}")}));
        }
    } else {
        l.label(if reference.is_ok() { "accepted_unchanged" } else { "rejected" });
    }
    Ok(())
}

/// one step of a history: (profile, call, form index, a, b)
pub type Step = (usize, usize, usize, String, String);

pub fn check_history(h: &[Step], l: &mut Local) -> Check {
    let mut profs_seen = std::collections::BTreeSet::new();
    let mut rejected = 0;
    for (i, (pi, ki, fi, a, b)) in h.iter().enumerate() {
        let (p, kind) = (PROFS[*pi], KINDS[*ki]);
        // the call under history: one of the long-lived / shared / static forms
        let all = forms(p, kind, a, b);
        let hist: Vec<&(&'static str, Result<String, RErr>)> = all.iter().filter(|(n, _)| !n.starts_with("fresh")).collect();
        let (name, got) = hist[*fi % hist.len()];
        // "the same call on a fresh instance", made on a brand-new thread so that it cannot share thread-local state
        // with the history
        let want = fresh_on_new_thread(p, kind, a, b);
        l.evals_n(2);
        if *got != want {
            return Err(Violation::new(
                json!({"op": "history", "steps": h.iter().map(|(pi, ki, fi, a, b)| json!([pi, ki, fi, a, b])).collect::<Vec<_>>(), "failing_step": i}),
                format!("step {i} ({} {} via {name}) == same call on a fresh instance: {want:?}", p.name(), kind_name(kind)),
                format!("{got:?}"),
            ));
        }
        profs_seen.insert(*pi);
        if want.is_err() {
            rejected += 1;
        }
    }
    if profs_seen.len() >= 2 && rejected >= 1 {
        l.nt(hash64(&h));
        l.label("history_2+_profiles_with_rejection");
    }
    Ok(())
}

fn history_strategy() -> BoxedStrategy<Vec<Step>> {
    // a small pool of inputs per history so that the same input recurs after other calls
    (vec((0..4usize).prop_flat_map(|pi| (Just(pi), strings_for(PROFS[pi]))), 1..6), vec((0..64usize, 0..3usize, 0..16usize, 0..64usize, 0..64usize), 0..40))
        .prop_map(|(pool, steps)| {
            // the pool also holds "plane aliases" of its strings (same low 16 bits, other plane), bare and with a
            // trailing character that makes an LTR label invalid: calls on them right after the original expose state
            // that is keyed on too few bits of a code point
            let mut full: Vec<String> = Vec::new();
            for (i, (_, s)) in pool.iter().enumerate() {
                full.push(s.clone());
                // every fourth history also has a long version of one of its strings (4 KiB+ and 70 KiB+: paths that only exist for long labels)
                if i == 0 && !s.is_empty() && steps.len() % 4 == 1 {
                    full.push(s.repeat(4200 / s.len() + 1));
                    if steps.len() % 8 == 1 {
                        full.push(s.repeat(70_000 / s.len() + 1));
                    }
                }
                for k in [1u32, 2] {
                    let up = crate::gens::plane_alias(s, k, true);
                    if up != *s {
                        full.push(format!("{up}_"));
                        full.push(up);
                    }
                }
                let down = crate::gens::plane_alias(s, 1, false);
                if down != *s {
                    full.push(down);
                }
            }
            steps
                .into_iter()
                .map(|(pi, ki, fi, ai, bi)| {
                    let a = full[ai % full.len()].clone();
                    let b = full[bi % full.len()].clone();
                    (pi % 4, ki, fi, a, b)
                })
                .collect()
        })
        .boxed()
}

// ---------------------------------------------------------------------------------------------
// first-use race: a child process whose very first library calls happen concurrently

fn race_inputs(seed: u64) -> Vec<(usize, usize, String, String)> {
    let run = Run::new("C16", Tier::Quick, seed, vec![]);
    let st = (0..4usize).prop_flat_map(|pi| (Just(pi), 0..3usize, strings_for(PROFS[pi]), strings_for(PROFS[pi])));
    run.sample_strategy("race", 0, &st, 240)
}

/// runs in the child: returns 0 when all concurrent results equal the single-threaded ones
pub fn race_child(seed: u64) -> i32 {
    let inputs = race_inputs(seed);
    let nthreads = 16;
    let barrier = std::sync::Barrier::new(nthreads);
    let results: Vec<Vec<Result<String, RErr>>> = std::thread::scope(|s| {
        let hs: Vec<_> = (0..nthreads)
            .map(|t| {
                let inputs = &inputs;
                let barrier = &barrier;
                s.spawn(move || {
                    barrier.wait();
                    // very first call of this thread goes through the static API, a different profile per thread
                    let mut out = Vec::new();
                    for k in 0..inputs.len() {
                        let (pi, ki, a, b) = &inputs[(k + t * 15) % inputs.len()];
                        let p = PROFS[(*pi + if k == 0 { t } else { 0 }) % 4];
                        let r = match KINDS[*ki] {
                            Kind::Prepare => match p {
                                Prof::UserMapped => o(<UsernameCaseMapped as PrecisFastInvocation>::prepare(a.as_str())),
                                Prof::UserPreserved => o(<UsernameCasePreserved as PrecisFastInvocation>::prepare(a.as_str())),
                                Prof::Opaque => o(<OpaqueString as PrecisFastInvocation>::prepare(a.as_str())),
                                Prof::Nick => o(<Nickname as PrecisFastInvocation>::prepare(a.as_str())),
                            },
                            Kind::Enforce => match p {
                                Prof::UserMapped => o(<UsernameCaseMapped as PrecisFastInvocation>::enforce(a.as_str())),
                                Prof::UserPreserved => o(<UsernameCasePreserved as PrecisFastInvocation>::enforce(a.as_str())),
                                Prof::Opaque => o(<OpaqueString as PrecisFastInvocation>::enforce(a.as_str())),
                                Prof::Nick => o(<Nickname as PrecisFastInvocation>::enforce(a.as_str())),
                            },
                            Kind::Compare => imp_compare_static(p, a, b).map(|x| x.to_string()),
                        };
                        out.push(r);
                    }
                    out
                })
            })
            .collect();
        hs.into_iter().map(|h| h.join().unwrap()).collect()
    });
    // phase 2: every thread makes the SAME call at (almost) the same instant, for each of a few thousand one-character
    // inputs whose classification needs extra work on first use (characters with decompositions); a spin barrier keeps the
    // threads within a few hundred nanoseconds of each other
    let d = crate::ucd::db();
    let mut chars: Vec<char> = Vec::new();
    let mut x = seed;
    for cp in 0x80u32..0x30000 {
        if d.u16.dtag[cp as usize] != crate::ucd::DT_NONE {
            if crate::engine::splitmix(&mut x) % 10 == 0 {
                if let Some(c) = char::from_u32(cp) {
                    chars.push(c);
                }
            }
        }
    }
    let arrived = std::sync::atomic::AtomicUsize::new(0);
    let nt2 = std::thread::available_parallelism().map(|n| n.get()).unwrap_or(8).min(12);
    let phase2: Vec<Vec<Result<String, RErr>>> = std::thread::scope(|s| {
        let hs: Vec<_> = (0..nt2)
            .map(|t| {
                let chars = &chars;
                let arrived = &arrived;
                s.spawn(move || {
                    let mut out = Vec::with_capacity(chars.len());
                    let mut buf = [0u8; 4];
                    let mut slow = 0u32;
                    for (i, c) in chars.iter().enumerate() {
                        arrived.fetch_add(1, std::sync::atomic::Ordering::AcqRel);
                        let target = (i + 1) * nt2;
                        let mut spins = 0u64;
                        while slow < 8 && arrived.load(std::sync::atomic::Ordering::Acquire) < target {
                            std::hint::spin_loop();
                            spins += 1;
                            if spins > 2_000_000 {
                                slow += 1; // a descheduled thread: go on rather than hang; after 8 of these stop synchronising
                                break;
                            }
                        }
                        let st: &str = c.encode_utf8(&mut buf);
                        out.push(if (t + i) % 2 == 0 { o(<UsernameCasePreserved as PrecisFastInvocation>::prepare(&*st)) } else { o(<Nickname as PrecisFastInvocation>::prepare(&*st)) });
                    }
                    out
                })
            })
            .collect();
        hs.into_iter().map(|h| h.join().unwrap()).collect()
    });
    // single-threaded, fresh instances, afterwards
    let mut bad = 0;
    for (t, res) in phase2.iter().enumerate() {
        for (i, r) in res.iter().enumerate() {
            let st = chars[i].to_string();
            let p = if (t + i) % 2 == 0 { Prof::UserPreserved } else { Prof::Nick };
            let want = imp_prepare(p, &st);
            if *r != want {
                bad += 1;
                println!("MISMATCH {}", json!({"phase": "same call from all threads at once", "thread": t, "profile": p.name(), "call": "prepare", "a": jstr(&st), "concurrent": format!("{r:?}"), "single_threaded": format!("{want:?}")}));
                if bad > 3 {
                    return 1;
                }
            }
        }
    }
    for (t, res) in results.iter().enumerate() {
        for (k, r) in res.iter().enumerate() {
            let (pi, ki, a, b) = &inputs[(k + t * 15) % inputs.len()];
            let p = PROFS[(*pi + if k == 0 { t } else { 0 }) % 4];
            let want = fresh(p, KINDS[*ki], a, b);
            if *r != want {
                bad += 1;
                println!("MISMATCH {}", json!({"thread": t, "call_index": k, "profile": p.name(), "call": kind_name(KINDS[*ki]), "a": jstr(a), "b": jstr(b), "concurrent": format!("{r:?}"), "single_threaded": format!("{want:?}")}));
                if bad > 3 {
                    return 1;
                }
            }
        }
    }
    println!("RACE-OK calls={}", results.iter().map(|r| r.len()).sum::<usize>() + phase2.iter().map(|r| r.len()).sum::<usize>());
    if bad > 0 { 1 } else { 0 }
}

fn check_race(seed: u64, l: &mut Local) -> Check {
    let exe = std::env::current_exe().expect("current_exe");
    l.eval();
    let out = std::process::Command::new(exe).args(["child", "c16-race", &seed.to_string()]).output().expect("spawn child");
    let stdout = String::from_utf8_lossy(&out.stdout).to_string();
    let case = json!({"op": "first_use_race", "seed": seed});
    match out.status.code() {
        Some(0) => {
            l.nt(hash64(&("race", seed)));
            l.label("first_use_race_child_ok");
            l.evals_n(16 * 240);
            Ok(())
        }
        Some(1) => Err(Violation::new(case, "concurrent first-use results == single-threaded fresh-instance results", stdout.lines().filter(|x| x.starts_with("MISMATCH")).take(2).collect::<Vec<_>>().join(" ; "))),
        other => Err(Violation::new(case, "child process finishes", format!("exit {other:?} (signal/panic): {}", String::from_utf8_lossy(&out.stderr).lines().last().unwrap_or("")))),
    }
}

pub fn run(run: &Run) {
    run.set_rule(
        "Generator: (a) proptest inputs per profile (the pipeline generators of C04-C06) through prepare/enforce/compare in every API form {fresh new(), fresh \
         default(), one long-lived instance per thread, one instance shared by all 16 threads, static PrecisFastInvocation} x argument form {&str, String, \
         Cow::Borrowed, Cow::Owned, String / Cow::Owned with spare capacity; for compare (&str,&str), (String,String), (&String,&str), (Cow,Cow)} while 16 threads run concurrently; (b) histories: \
         proptest sequences of up to 40 calls over a small input pool (so inputs recur after other profiles' calls) on long-lived/shared/static instances, \
         each step compared with the same call on a fresh instance made on a brand-new thread (so that thread-local state of the history cannot reach the reference); (c) first-use race: the checker re-executes itself N times (24 quick / 600 thorough, one child at a time); in each child 16 threads wait \
         on a barrier and make their very first library calls through the static API (a different profile per thread), followed by 240 generated calls, then a second phase in which 12 threads, kept together by a spin barrier, make the SAME first-time call at the same instant \
         for each of a few thousand one-character inputs (characters with decompositions); results \
         are compared with single-threaded fresh-instance results computed afterwards. Oracle: differential equality of results (content of Cow, error \
         values). Non-trivial: accepted input that some step changes / compare of distinct strings; history with >= 2 profiles and >= 1 rejected input; each \
         race child. LIMIT: thread interleavings are whatever the OS scheduler produces (sampling, not control).",
    );
    run.assume("the schedule quantifier is sampled: the harness does not own the scheduler; strong against state leaking between calls (caches, thread-locals, differently configured statics), weak against a race needing one specific interleaving");
    run.prop("api_forms", run.pick(150_000, 6_000_000), || (0..4usize).prop_flat_map(|pi| (Just(pi), 0..3usize, strings_for(PROFS[pi]), strings_for(PROFS[pi]))), |(pi, ki, a, b), l| {
        check_forms(PROFS[*pi], KINDS[*ki], a, b, l)
    });
    run.prop("histories", run.pick(3_000, 120_000), history_strategy, |h, l| check_history(h, l));
    // focused histories: ONE profile and ONE operation over a pool of 2..4 related strings (a base, the base with a
    // character that only fails on a later application / that changes its class, long >= 32-byte variants), 6..14 calls with
    // immediate repetitions: "succeed, fail late, same again", "fail, succeed, fail" ...
    let focused = || {
        (0..4usize, 0..3usize, 0..16usize, super::pipe::strings_for(Prof::Nick), 0usize..12, 0usize..4, proptest::collection::vec((0usize..8, 0usize..8), 6..14)).prop_map(|(pi, ki, fi, base, poison, pad, picks)| {
            const LATE: [char; 12] = ['\u{3131}', '\u{ffa1}', '\u{fe71}', '\u{ff65}', '\u{1100}', '\u{a8}', '\u{0}', ' ', '\u{ff21}', '\u{5d0}', '\u{200d}', '\u{378}'];
            let filler = ["", "Guybrush Threepwood, Mighty Pirate of Melee Island ", "abcdefghijklmnopqrstuvwxyzabcdefgh", "\u{e9}\u{6f22}\u{10428}\u{e9}\u{6f22}\u{10428}\u{e9}\u{6f22}\u{10428}\u{e9}\u{6f22}\u{10428}"][pad];
            let a = format!("{filler}{base}");
            let mut b: Vec<char> = a.chars().collect();
            let at = b.len() / 2;
            b.insert(at, LATE[poison]);
            let b: String = b.into_iter().collect();
            let pool = [a.clone(), b.clone(), format!("{b}x"), a.to_uppercase()];
            picks.into_iter().map(|(x, y)| (pi, ki, fi, pool[x % 4].clone(), pool[y % 4].clone())).collect::<Vec<Step>>()
        })
    };
    run.prop("focused_histories", run.pick(4_000, 150_000), focused, |h, l| check_history(h, l));
    run.par("fingerprint_collision_histories", true, |tid, _n, l| {
        if tid != 0 {
            return;
        }
        for (_, a, b) in crate::gens::fingerprint_collisions().iter() {
            for pi in 0..4usize {
                for ki in 0..3usize {
                    for fi in [0usize, 5, 9, 12] {
                        let h: Vec<Step> = vec![(pi, ki, fi, a.clone(), a.clone()), (pi, ki, fi, b.clone(), b.clone()), (pi, ki, fi, a.clone(), b.clone()), ((pi + 1) % 4, ki, fi, b.clone(), a.clone())];
                        l.cases += 1;
                        if let Err(v) = check_history(&h, l) {
                            run.violate(v);
                            return;
                        }
                    }
                }
            }
        }
    });
    // thread generations: 4 long-lived threads keep calling the library on their own inputs while 2000 (thorough: 20000) short-lived threads are started
    // one after the other, each making 200 calls on its own inputs; every result against the result of the same call made
    // single-threaded beforehand
    {
        let generations = run.pick(2000usize, 20000usize);
        run.par("thread_generations", false, |tid, _n, l| {
            if tid != 0 {
                return;
            }
            let pool_chars: Vec<char> = (0xa0u32..0x3400).chain((0xf900..0x10000).step_by(3)).chain((0x1d400..0x1d800).step_by(5)).filter_map(char::from_u32).collect();
            let mut seed = run.seed ^ 0x6331_3667;
            let mut mk_set = || -> Vec<(Prof, String, RRes)> {
                (0..20)
                    .map(|_| {
                        let p = PROFS[(splitmix(&mut seed) % 4) as usize];
                        let c = pool_chars[(splitmix(&mut seed) % pool_chars.len() as u64) as usize];
                        let s = if splitmix(&mut seed) % 3 == 0 { format!("a{c}") } else { c.to_string() };
                        let want = guard(|| imp_enforce(p, &s)).unwrap_or_else(|pn| Ok(format!("<<panic: {pn}>>")));
                        (p, s, want)
                    })
                    .collect()
            };
            let stop = std::sync::atomic::AtomicBool::new(false);
            let bad: std::sync::Mutex<Option<Violation>> = std::sync::Mutex::new(None);
            let work = |set: &[(Prof, String, RRes)], rounds: usize, who: &str| -> u64 {
                let mut calls = 0u64;
                for _ in 0..rounds {
                    for (p, s, want) in set {
                        let got = guard(|| imp_enforce(*p, s)).unwrap_or_else(|pn| Ok(format!("<<panic: {pn}>>")));
                        calls += 1;
                        if got != *want {
                            let mut b = bad.lock().unwrap();
                            if b.is_none() {
                                *b = Some(Violation::new(
                                    json!({"op": "thread_generations", "profile": p.name(), "call": "enforce", "a": jstr(s), "thread": who}),
                                    format!("{} (the same call made single-threaded beforehand)", fmt_res(want)),
                                    fmt_res(&got),
                                ));
                            }
                            return calls;
                        }
                    }
                }
                calls
            };
            let long_sets: Vec<Vec<(Prof, String, RRes)>> = (0..4).map(|_| mk_set()).collect();
            let total = std::sync::atomic::AtomicU64::new(0);
            std::thread::scope(|s| {
                for (i, set) in long_sets.iter().enumerate() {
                    let (stop, work, total) = (&stop, &work, &total);
                    s.spawn(move || {
                        while !stop.load(std::sync::atomic::Ordering::Relaxed) {
                            total.fetch_add(work(set, 2, &format!("long-lived {i}")), std::sync::atomic::Ordering::Relaxed);
                        }
                    });
                }
                for g in 0..generations {
                    let set = mk_set();
                    let work = &work;
                    let calls = s.spawn(move || work(&set, 10, &format!("short-lived {g}"))).join().unwrap_or(0);
                    total.fetch_add(calls, std::sync::atomic::Ordering::Relaxed);
                    l.cases += 1;
                    if bad.lock().unwrap().is_some() || run.stopped() {
                        break;
                    }
                }
                stop.store(true, std::sync::atomic::Ordering::Relaxed);
            });
            l.evals_n(total.load(std::sync::atomic::Ordering::Relaxed));
            let found = bad.lock().unwrap().take();
            if let Some(v) = found {
                run.violate(v);
            }
        });
    }
    // calls made while a thread is being torn down (from the destructor of a caller's thread-local value registered before / after the
    // thread's first library call): 128 threads, 24 calls each, against the same calls made beforehand
    run.par("calls_during_thread_teardown", false, |tid, _n, l| {
        if tid != 0 {
            return;
        }
        let inputs = ["\u{aa}", "\u{fb01}e\u{301}", "\u{ff21}\u{ff42}", "\u{130}\u{316}", "Foo  Bar", "\u{2163}x", "\u{3a3}\u{3c2}", "e\u{301}\u{a0}z", "\u{5d0}1", "a\u{200c}", "\u{4ff1}", "\u{1d400}"];
        let mut want: Vec<(Prof, String, RRes)> = Vec::new();
        for p in PROFS {
            for s in inputs {
                want.push((p, s.to_string(), guard(|| imp_enforce(p, s)).unwrap_or_else(|pn| Ok(format!("<<panic: {pn}>>")))));
            }
        }
        let want = std::sync::Arc::new(want);
        let found: std::sync::Arc<std::sync::Mutex<Vec<(usize, String, bool)>>> = Default::default();
        let calls = std::sync::Arc::new(std::sync::atomic::AtomicU64::new(0));
        for k in 0..128usize {
            let before = k % 2 == 0;
            let (w2, f2, c2) = (want.clone(), found.clone(), calls.clone());
            let hook = move || {
                let r = std::panic::catch_unwind(std::panic::AssertUnwindSafe(|| {
                    for j in 0..24 {
                        let i = (k * 7 + j * 5) % w2.len();
                        let got = imp_enforce(w2[i].0, &w2[i].1);
                        c2.fetch_add(1, std::sync::atomic::Ordering::Relaxed);
                        if got != w2[i].2 {
                            f2.lock().unwrap().push((i, fmt_res(&got), before));
                            return;
                        }
                    }
                }));
                if r.is_err() {
                    f2.lock().unwrap().push(((k * 7) % w2.len(), "panic inside the call".to_string(), before));
                }
            };
            let w3 = want.clone();
            let _ = std::thread::spawn(move || {
                let mut hook = Some(hook);
                if before {
                    at_thread_exit(Box::new(hook.take().unwrap()));
                }
                for j in 0..6 {
                    let i = (k * 11 + j) % w3.len();
                    std::hint::black_box(imp_enforce(w3[i].0, &w3[i].1).is_ok());
                }
                if let Some(h) = hook.take() {
                    at_thread_exit(Box::new(h));
                }
            })
            .join();
            l.cases += 1;
            if let Some((i, got, before)) = found.lock().unwrap().first().cloned() {
                run.violate(Violation::new(
                    json!({"op": "thread_generations", "profile": want[i].0.name(), "call": "enforce", "a": jstr(&want[i].1), "thread": format!("destructor of a thread-local value, registered {} the thread's first library call", if before { "before" } else { "after" })}),
                    format!("{} (the same call made beforehand)", fmt_res(&want[i].2)),
                    got,
                ));
                break;
            }
        }
        l.evals_n(calls.load(std::sync::atomic::Ordering::Relaxed));
    });
    // the same fixed battery of calls in child processes under ~50 process environments (locale variables, cleared environment,
    // other working directory): every answer must equal the answer of the same call made here
    {
        let envs = super::envchild::environments();
        let mine = super::envchild::results();
        let (envs, mine) = (&envs, &mine);
        run.par("environment_children", true, |tid, n, l| {
            for (i, (clear, vars)) in envs.iter().enumerate() {
                if i % n != tid {
                    continue;
                }
                l.cases += 1;
                if let Err(v) = super::envchild::check_env(*clear, vars, &|k| Some(mine[k].clone()), l) {
                    run.violate(v);
                    return;
                }
            }
        });
    }
    // children run one after the other: each one uses all cores itself (16 racing threads, then 12 spinning threads)
    let children = run.pick(24u64, 600u64);
    run.par("first_use_race", false, |tid, _n, l| {
        if tid != 0 {
            return;
        }
        for i in 0..children {
            l.cases += 1;
            if let Err(v) = check_race(run.seed.wrapping_mul(1_000_003).wrapping_add(i), l) {
                run.violate(v);
                return;
            }
        }
    });
}

pub fn replay(_run: &Run, case: &Value) -> Check {
    let mut l = Local::default();
    match case["op"].as_str() {
        Some("api_forms") => {
            let p = Prof::from_name(case["profile"].as_str().unwrap()).unwrap();
            let kind = KINDS.iter().copied().find(|k| kind_name(*k) == case["call"].as_str().unwrap()).unwrap();
            check_forms(p, kind, &jget_str(case, "a").unwrap(), &jget_str(case, "b").unwrap(), &mut l)
        }
        Some("history") => {
            let h: Vec<Step> = case["steps"].as_array().unwrap().iter().map(|s| (s[0].as_u64().unwrap() as usize, s[1].as_u64().unwrap() as usize, s[2].as_u64().unwrap() as usize, s[3].as_str().unwrap().to_string(), s[4].as_str().unwrap().to_string())).collect();
            check_history(&h, &mut l)
        }
        Some("thread_generations") => {
            // the concurrent history is not part of the file: re-evaluate the call against a fresh instance on a new thread
            let p = Prof::from_name(case["profile"].as_str().unwrap()).unwrap();
            check_forms(p, Kind::Enforce, &jget_str(case, "a").unwrap(), "", &mut l)
        }
        Some("environment") => {
            let mine = super::envchild::results();
            super::envchild::replay_env(case, &|k| Some(mine[k].clone()))
        }
        Some("first_use_race") => check_race(case["seed"].as_u64().unwrap(), &mut l),
        _ => panic!("unknown C16 case"),
    }
}
