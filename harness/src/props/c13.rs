//! C13 — stabilize returns only fixed points and honours its iteration contract
use crate::engine::*;
use crate::model::*;
use precis_core::profile::stabilize;
use precis_core::{CodepointInfo, DerivedPropertyValue, Error, UnexpectedError};
use proptest::collection::vec;
use proptest::prelude::*;
use serde_json::{json, Value};
use std::borrow::Cow;
use std::cell::RefCell;

/// A rule "program": table[i] = next state (< k), or k+e = error e.  `grow`: states >= k are mapped by appending 'a' (diverging)
#[derive(Clone, Debug, PartialEq, Eq, Hash)]
pub struct Prog {
    pub table: Vec<u8>,
    pub start: u8,
    /// bit i set: returning state i unchanged uses Cow::Borrowed(input), else an owned copy
    pub borrow_mask: u32,
    /// how the start value is passed: 0 = &str, 1 = String, 2 = Cow::Borrowed, 3 = Cow::Owned
    pub arg_form: u8,
    /// 0: states are "0","1",..; 1: multi-byte strings of growing length; 2: nested prefixes of one multi-byte
    /// base string (state i+1 is a proper prefix of state i), so a rule can return a BORROWED SUB-SLICE of its input
    pub naming: u8,
}

/// naming 5: the states are overlapping slices of ONE static buffer; a rule may answer with a `&'static str` that is
/// not a view of its argument (same length and different content, or overlapping the argument's memory and running past it)
static STATIC_BUF: &str = "abcdefghijklmnopqrstuvwx";
const STATIC_SLICES: [(usize, usize); 16] = [(0, 4), (2, 8), (4, 8), (1, 5), (0, 8), (6, 10), (3, 7), (8, 12), (2, 6), (5, 9), (0, 2), (10, 16), (7, 11), (12, 16), (1, 3), (9, 13)];
fn static_state(i: u8) -> &'static str {
    let (a, b) = STATIC_SLICES[i as usize % 16];
    &STATIC_BUF[a..b]
}
const PEEL_BASE: &str = "[\u{3000}(\u{e9}{<\u{10428}|a|b\u{6f22}>}c) ]xyz\u{20ac}q";
const NEST_BASE: &str = "é1€3𝄞5ü7ß9abcxyz";
fn state_name(naming: u8, i: u8) -> String {
    state_ref(naming, i).into_owned()
}
/// the state string, borrowed from a process-wide cache where there is one
fn state_ref(naming: u8, i: u8) -> Cow<'static, str> {
    static CACHE: std::sync::OnceLock<Vec<Vec<String>>> = std::sync::OnceLock::new();
    let c = CACHE.get_or_init(|| (0..6u8).map(|n| (0..16u8).map(|i| state_name_uncached(n, i)).collect()).collect());
    if (naming as usize) < c.len() && (i as usize) < 16 {
        return Cow::Borrowed(c[naming as usize][i as usize].as_str());
    }
    if naming == 6 {
        static HUGE: std::sync::OnceLock<Vec<String>> = std::sync::OnceLock::new();
        let h = HUGE.get_or_init(|| (0..5u8).map(|i| state_name_uncached(6, i)).collect());
        return Cow::Borrowed(h[i as usize % 5].as_str());
    }
    Cow::Owned(state_name_uncached(naming, i))
}
fn state_name_uncached(naming: u8, i: u8) -> String {
    match naming {
        0 => format!("{i}"),
        1 => format!("é{}€", "𝄞".repeat(i as usize)),
        2 => NEST_BASE.chars().take(14usize.saturating_sub(i as usize)).collect(),
        // 3: state i is state 0 with i characters peeled off BOTH ends (a rule may return an interior view of its input)
        3 => {
            let cs: Vec<char> = PEEL_BASE.chars().collect();
            let i = (i as usize).min(cs.len() / 2);
            cs[i..cs.len() - i].iter().collect()
        }
        5 => static_state(i).to_string(),
        // 6: three short states, then two beyond 64 MiB (growth chains that end in a very large fixed point)
        6 => "a".repeat([1usize, 2, 3, (1 << 26) + 1, (1 << 26) + 2][i as usize % 5]),
        // 4: lengths that differ by orders of magnitude (an application may grow or shrink the string enormously)
        _ => {
            const LENS: [usize; 13] = [1, 0, 40, 2000, 2, 5000, 37, 3, 700, 19, 100, 5, 64];
            "\u{e9}x".repeat(LENS[i as usize % 13]).chars().take(LENS[i as usize % 13]).collect()
        }
    }
}
fn err_of(e: u8) -> Error {
    let info = |cp: u32, pos: usize, v: DerivedPropertyValue| CodepointInfo::new(cp, pos, v);
    match e {
        0 => Error::BadCodepoint(info(0x41, 7, DerivedPropertyValue::Disallowed)),
        1 => Error::Unexpected(UnexpectedError::Undefined),
        2 => Error::Invalid,
        // the whole error value space: every variant, code points that are not scalar values, extreme positions, every property value
        3 => Error::BadCodepoint(info(0xd800, 2, DerivedPropertyValue::Disallowed)),
        4 => Error::BadCodepoint(info(0x110000, 0, DerivedPropertyValue::Unassigned)),
        5 => Error::BadCodepoint(info(u32::MAX, usize::MAX, DerivedPropertyValue::PValid)),
        6 => Error::BadCodepoint(info(0, 0, DerivedPropertyValue::ContextJ)),
        7 => Error::BadCodepoint(info(0x10ffff, 1 << 40, DerivedPropertyValue::ContextO)),
        8 => Error::BadCodepoint(info(0x200c, 3, DerivedPropertyValue::SpecClassDis)),
        9 => Error::BadCodepoint(info(0xe9, 1, DerivedPropertyValue::SpecClassPval)),
        10 => Error::Unexpected(UnexpectedError::MissingContextRule(info(0xdfff, 1, DerivedPropertyValue::ContextO))),
        11 => Error::Unexpected(UnexpectedError::MissingContextRule(info(0x66e, 0, DerivedPropertyValue::ContextJ))),
        12 => Error::Unexpected(UnexpectedError::ContextRuleNotApplicable(info(0x110000, 5, DerivedPropertyValue::ContextJ))),
        13 => Error::Unexpected(UnexpectedError::ContextRuleNotApplicable(info(0xb7, usize::MAX, DerivedPropertyValue::ContextO))),
        14 => Error::Unexpected(UnexpectedError::ProfileRuleNotApplicable),
        _ => Error::Invalid,
    }
}
const N_ERRS: u8 = 15;

impl Prog {
    fn k(&self) -> u8 {
        self.table.len() as u8
    }
    fn json(&self) -> Value {
        json!({"op": "stabilize", "table": self.table, "start": self.start, "borrow_mask": self.borrow_mask, "arg_form": self.arg_form, "naming": self.naming,
               "reading": "table[i] < len: f(state i) = state table[i]; table[i] = len+e: f(state i) = Err(e) with e0=BadCodepoint, e1=Unexpected(Undefined), e2=Invalid"})
    }
    fn step(&self, s: &str) -> Result<String, RErr> {
        let k = self.k();
        for i in 0..k {
            if state_ref(self.naming, i) == s {
                let t = self.table[i as usize];
                return if t < k { Ok(state_name(self.naming, t)) } else { Err(rerr(&err_of(t - k))) };
            }
        }
        // unknown strings diverge
        Ok(format!("{s}a"))
    }
}

fn hr<F: for<'b> Fn(&'b str) -> Result<Cow<'b, str>, Error>>(f: F) -> F {
    f
}

pub fn check_prog(p: &Prog, l: &mut Local) -> Check {
    let k = p.k();
    let start = state_name(p.naming, p.start);
    let calls: RefCell<Vec<String>> = RefCell::new(Vec::new());
    let f = hr(|s: &str| {
        calls.borrow_mut().push(s.to_string());
        for i in 0..k {
            if state_ref(p.naming, i) == s {
                let t = p.table[i as usize];
                if t >= k {
                    return Err(err_of(t - k));
                }
                if t == i && (p.borrow_mask >> i) & 1 == 1 {
                    return Ok(Cow::Borrowed(s));
                }
                // a different result that is a prefix of the input may come back as a borrowed sub-slice
                if p.naming == 2 && t > i && (p.borrow_mask >> (8 + t % 8)) & 1 == 1 {
                    let n = state_name(2, t).len();
                    return Ok(Cow::Borrowed(&s[..n]));
                }
                if p.naming == 5 && (p.borrow_mask >> (8 + t % 8)) & 1 == 1 {
                    return Ok(Cow::Borrowed(static_state(t)));
                }
                if p.naming == 3 && t > i && (p.borrow_mask >> (8 + t % 8)) & 1 == 1 {
                    // an interior view: the target is the input with (t-i) characters peeled off both ends
                    let target = state_name(3, t);
                    if let Some(at) = s.find(target.as_str()) {
                        if at > 0 && !target.is_empty() {
                            return Ok(Cow::Borrowed(&s[at..at + target.len()]));
                        }
                    }
                }
                return Ok(Cow::Owned(state_name(p.naming, t)));
            }
        }
        Ok(Cow::Owned(format!("{s}a")))
    });
    l.eval();
    let got = match p.arg_form {
        0 if p.naming == 5 => obs(&stabilize(static_state(p.start), f)),
        2 if p.naming == 5 => obs(&stabilize(Cow::Borrowed(static_state(p.start)), f)),
        0 => obs(&stabilize(start.as_str(), f)),
        1 => obs(&stabilize(start.clone(), f)),
        2 => obs(&stabilize(Cow::Borrowed(start.as_str()), f)),
        _ => obs(&stabilize(Cow::<str>::Owned(start.clone()), f)),
    };
    let want = ref_stabilize(&start, &|s| p.step(s));
    let calls = calls.into_inner();
    if got != want {
        return Err(Violation::new(p.json(), fmt_res(&want), format!("{} after {} applications", fmt_res(&got), calls.len())));
    }
    if calls.len() > 4 {
        return Err(Violation::new(p.json(), "at most 4 applications of f", format!("{} applications", calls.len())));
    }
    // arguments must follow the orbit of start
    let mut cur = start.clone();
    let mut orbit_len = 0;
    let mut err_after_change = false;
    for (i, a) in calls.iter().enumerate() {
        if *a != cur {
            return Err(Violation::new(p.json(), format!("application {i} on orbit element \"{}\"", esc(&cur)), format!("f applied to \"{}\"", esc(a))));
        }
        match p.step(&cur) {
            Ok(n) => {
                if n != cur {
                    orbit_len += 1;
                }
                cur = n;
            }
            Err(_) => {
                err_after_change = orbit_len > 0;
                break;
            }
        }
    }
    if let Ok(x) = &got {
        if p.step(x) != Ok(x.clone()) {
            return Err(Violation::new(p.json(), "returned value is a fixed point of f", format!("f(\"{}\") = {:?}", esc(x), p.step(x))));
        }
    }
    if orbit_len >= 1 || err_after_change {
        l.nt(hash64(&(&p.table, p.start, p.naming)));
        l.label(match (&got, orbit_len) {
            (Ok(_), 1) => "converged_after_1_change",
            (Ok(_), 2) => "converged_after_2_changes",
            (Ok(_), 3) => "converged_after_3_changes",
            (Ok(_), _) => "converged_other",
            (Err(RErr::Invalid), n) if n >= 4 => "rejected_still_changing",
            (Err(_), _) => "error_propagated_or_invalid",
        });
        if l.want_sample() {
            l.sample(json!({"table": p.table, "start": p.start, "calls": calls.iter().map(|c| if c.len() > 200 { format!("<{} bytes>", c.len()) } else { c.clone() }).collect::<Vec<_>>(), "result": fmt_res(&got).chars().take(300).collect::<String>()}));
        }
    }
    Ok(())
}

pub fn run(run: &Run) {
    run.set_rule(
        "Generator ('programs'): (a) ALL functions f: S -> S + {Err1, Err2} on k states for k <= K (K=6 quick, 7 thorough) from every start state, with opaque and with nested-prefix state strings \
         (total/failing, converging after 0..3 changes, cycles of every length, tails), with the start passed as &str; (b) proptest functions on up to \
         12 states with three error kinds, diverging continuation (s -> s+'a'), Cow::Borrowed vs Cow::Owned for unchanged results, borrowed SUB-SLICES of the input for changed results (nested-prefix and peeled-on-both-ends state strings, with borrowed and owned start values), \
         overlapping slices of one static buffer returned as &'static borrows (not views of the argument), \
         state strings whose lengths differ by orders of magnitude (0 .. 5 000 characters), start passed as \
         &str / String / Cow::Borrowed / Cow::Owned, ASCII and multi-byte state strings. Oracle: reference stabilize (apply up to 4 times, accept the \
         first x with f(x)=x, propagate f's error, else Invalid) + instrumented closure: arguments follow the orbit of the start, <= 4 applications, \
         result is a fixed point. Non-trivial: at least one application changed the string; distinct = distinct (table,start,naming).",
    );
    let kmax = run.pick(6u32, 7u32);
    for k in 1..=kmax {
        let nerr = 2u64;
        let base = k as u64 + nerr;
        let total = base.pow(k);
        let name = format!("all_functions_k{k}");
        run.par(&name, true, |tid, n, l| {
            let mut idx = tid as u64;
            while idx < total {
                if idx % 65536 < n as u64 && run.stopped() {
                    return;
                }
                let mut rem = idx;
                let mut table = Vec::with_capacity(k as usize);
                for _ in 0..k {
                    table.push((rem % base) as u8);
                    rem /= base;
                }
                for start in 0..k as u8 {
                    for (naming, arg_form) in [(0u8, 0u8), (2, 0), (2, 1), (3, 1), (3, 0), (5, 0), (5, 1), (4, (idx % 4) as u8)] {
                        if naming == 4 && k > 5 && idx % 8 != 0 {
                            continue; // the huge strings of naming 4 are sampled for the larger k
                        }
                        let p = Prog { table: table.clone(), start, borrow_mask: (idx as u32).wrapping_mul(2654435761) | if naming >= 2 { 0xff00 } else { 0 }, arg_form, naming };
                        l.cases += 1;
                        if let Err(v) = check_prog(&p, l) {
                            run.violate(v);
                            return;
                        }
                    }
                }
                idx += n as u64;
            }
        });
    }
    // growth chains over three short states and two states beyond 64 MiB: every distinct orbit of the tables with f(i) in {i, i+1 mod 5, Err}
    // from starts 0..=3, in the four argument forms
    // every error value of the error space, returned by the rule function on its 1st, 2nd, 3rd or 4th application, in the four argument forms:
    // stabilize propagates exactly the rule function's error
    run.par("error_value_space", true, |tid, n, l| {
        let mut idx = 0usize;
        for e in 0..N_ERRS {
            for fail_at in 0..4u8 {
                for arg_form in 0..4u8 {
                    for naming in [0u8, 1] {
                        idx += 1;
                        if idx % n != tid {
                            continue;
                        }
                        // states 0 -> 1 -> ... -> fail_at, which fails with error e
                        let k = fail_at + 1;
                        let table: Vec<u8> = (0..k).map(|i| if i == fail_at { k + e } else { i + 1 }).collect();
                        let p = Prog { table, start: 0, borrow_mask: 0, arg_form, naming };
                        l.cases += 1;
                        if let Err(v) = check_prog(&p, l) {
                            run.violate(v);
                            return;
                        }
                    }
                }
            }
        }
    });
    // nested use: the rule function of the outer call is itself "stabilize(inner rule), then one outer step" (a profile built on top of
    // another stabilising profile): all pairs of functions on 3 states with two error kinds, from every start state
    run.par("nested_stabilize_all_pairs_k3", true, |tid, n, l| {
        let base = 5u32; // 3 states + 2 errors
        let total = base.pow(3);
        let decode = |mut t: u32| -> Vec<u8> { (0..3).map(|_| { let d = (t % base) as u8; t /= base; d }).collect() };
        let name = |i: u8| format!("{i}");
        let mut idx = 0u32;
        for ti in 0..total {
            for to in 0..total {
                idx += 1;
                if idx as usize % n != tid {
                    continue;
                }
                if idx % 4096 < n as u32 && run.stopped() {
                    return;
                }
                let (inner, outer) = (decode(ti), decode(to));
                let step = |tab: &[u8], s: &str| -> RRes {
                    match s.parse::<u8>() {
                        Ok(i) if (i as usize) < tab.len() => {
                            let t = tab[i as usize];
                            if t < 3 { Ok(name(t)) } else { Err(rerr(&err_of(t - 3))) }
                        }
                        _ => Ok(format!("{s}a")),
                    }
                };
                let imp_step = |tab: &[u8], s: &str| -> Result<String, Error> {
                    match s.parse::<u8>() {
                        Ok(i) if (i as usize) < tab.len() => {
                            let t = tab[i as usize];
                            if t < 3 { Ok(name(t)) } else { Err(err_of(t - 3)) }
                        }
                        _ => Ok(format!("{s}a")),
                    }
                };
                for start in 0..3u8 {
                    l.cases += 1;
                    l.eval();
                    let s0 = name(start);
                    let f_in = hr(|s: &str| imp_step(&inner, s).map(Cow::Owned));
                    let f_out = hr(|s: &str| {
                        let mid = stabilize(s, &f_in)?;
                        imp_step(&outer, &mid).map(Cow::Owned)
                    });
                    let got = match guard(|| obs(&stabilize(s0.as_str(), &f_out))) {
                        Ok(g) => g,
                        Err(pn) => Ok(format!("<<panic: {pn}>>")),
                    };
                    let want = ref_stabilize(&s0, &|s| {
                        let mid = ref_stabilize(s, &|x| step(&inner, x))?;
                        step(&outer, &mid)
                    });
                    if got != want {
                        run.violate(Violation::new(
                            json!({"op": "nested_stabilize", "inner": inner, "outer": outer, "start": start,
                                   "reading": "states \"0\",\"1\",\"2\"; table[i] < 3: next state, 3: Err(BadCodepoint), 4: Err(Unexpected(Undefined)); outer rule = stabilize(s, inner rule)? then one outer step"}),
                            fmt_res(&want),
                            fmt_res(&got),
                        ));
                        return;
                    }
                    if want.is_ok() && ti != to {
                        l.nt(hash64(&("nested", ti, to, start)));
                        l.label("nested_converged");
                    }
                }
            }
        }
    });
    let mut chains: Vec<Prog> = Vec::new();
    {
        let mut seen = std::collections::HashSet::new();
        for t in 0..243u32 {
            for start in 0..4u8 {
                let mut rem = t;
                let table: Vec<u8> = (0..5u8)
                    .map(|i| {
                        let c = rem % 3;
                        rem /= 3;
                        match c {
                            0 => i,
                            1 => (i + 1) % 5,
                            _ => 5 + 2,
                        }
                    })
                    .collect();
                // programs with the same orbit from the start state behave alike: keep one of each, once per argument form
                let mut sig: Vec<(u8, u8)> = Vec::new();
                let mut cur = start;
                for _ in 0..6 {
                    sig.push((cur, table[cur as usize]));
                    if table[cur as usize] >= 5 || table[cur as usize] == cur {
                        break;
                    }
                    cur = table[cur as usize];
                }
                for arg_form in 0..4u8 {
                    if seen.insert((sig.clone(), arg_form)) {
                        chains.push(Prog { table: table.clone(), start, borrow_mask: t.wrapping_mul(2654435761), arg_form, naming: 6 });
                    }
                }
            }
        }
    }
    let chains = &chains;
    run.par("huge_growth_chains", true, |tid, n, l| {
        for (i, p) in chains.iter().enumerate() {
            if i % n != tid {
                continue;
            }
            if run.stopped() {
                return;
            }
            l.cases += 1;
            if let Err(mut v) = check_prog(p, l) {
                // keep the report small: the state strings are 'a' repeated 1, 2, 3, 2^26+1, 2^26+2 times
                v.expected = v.expected.chars().take(300).collect();
                v.observed = v.observed.chars().take(300).collect();
                run.violate(v);
                return;
            }
        }
    });
    let mk = || {
        (1usize..=12).prop_flat_map(|k| {
            (vec(prop_oneof![6 => 0u8..(k as u8 + 3), 1 => (k as u8)..(k as u8 + N_ERRS)], k), 0u8..k as u8, any::<u32>(), 0u8..4, 0u8..6)
                .prop_map(|(table, start, borrow_mask, arg_form, naming)| Prog { table, start, borrow_mask, arg_form, naming })
        })
    };
    run.prop("random_programs", run.pick(1_000_000, 30_000_000), mk, |p, l| check_prog(p, l));
}

pub fn replay(_run: &Run, case: &Value) -> Check {
    if case.get("op").and_then(|o| o.as_str()) == Some("nested_stabilize") {
        let tab = |k: &str| -> Vec<u8> { case[k].as_array().unwrap().iter().map(|x| x.as_u64().unwrap() as u8).collect() };
        let (inner, outer, start) = (tab("inner"), tab("outer"), case["start"].as_u64().unwrap() as u8);
        let name = |i: u8| format!("{i}");
        let step = |tab: &[u8], s: &str| -> RRes {
            match s.parse::<u8>() {
                Ok(i) if (i as usize) < tab.len() => if tab[i as usize] < 3 { Ok(name(tab[i as usize])) } else { Err(rerr(&err_of(tab[i as usize] - 3))) },
                _ => Ok(format!("{s}a")),
            }
        };
        let imp_step = |tab: &[u8], s: &str| -> Result<String, Error> {
            match s.parse::<u8>() {
                Ok(i) if (i as usize) < tab.len() => if tab[i as usize] < 3 { Ok(name(tab[i as usize])) } else { Err(err_of(tab[i as usize] - 3)) },
                _ => Ok(format!("{s}a")),
            }
        };
        let s0 = name(start);
        let f_in = hr(|s: &str| imp_step(&inner, s).map(Cow::Owned));
        let f_out = hr(|s: &str| {
            let mid = stabilize(s, &f_in)?;
            imp_step(&outer, &mid).map(Cow::Owned)
        });
        let got = obs(&stabilize(s0.as_str(), &f_out));
        let want = ref_stabilize(&s0, &|s| {
            let mid = ref_stabilize(s, &|x| step(&inner, x))?;
            step(&outer, &mid)
        });
        return if got == want { Ok(()) } else { Err(Violation::new(case.clone(), fmt_res(&want), fmt_res(&got))) };
    }
    let p = Prog {
        table: case["table"].as_array().unwrap().iter().map(|x| x.as_u64().unwrap() as u8).collect(),
        start: case["start"].as_u64().unwrap() as u8,
        borrow_mask: case["borrow_mask"].as_u64().unwrap_or(0) as u32,
        arg_form: case["arg_form"].as_u64().unwrap_or(0) as u8,
        naming: case["naming"].as_u64().unwrap_or(0) as u8,
    };
    check_prog(&p, &mut Local::default())
}
