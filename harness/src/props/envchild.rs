//! the same fixed battery of calls in child processes started under different process environments (locale variables,
//! cleared environment, other working directory): results must be a function of the arguments alone
use crate::engine::*;
use crate::model::*;
use serde_json::{json, Value};

/// (profile, call: 0 prepare, 1 enforce, 2 compare, 3 case_mapping_rule, 4 width_mapping_rule, a, b) — built from std only
pub fn battery() -> Vec<(Prof, u8, String, String)> {
    let mut v = Vec::new();
    let words = [
        "I", "i", "\u{130}", "\u{131}", "ISTANBUL", "\u{130}stanbul", "INFO", "TITLE", "D\u{130}YARBAKIR", "J\u{303}", "\u{128}", "\u{cc}", "I\u{307}", "\u{12e}\u{303}", "\u{3a3}\u{391}\u{3a3}", "\u{39f}\u{394}\u{39f}\u{3a3}",
        "STRASSE", "\u{1e9e}", "\u{1c5}", "\u{fb01}", "\u{ff29}", "\u{2160}", "\u{212a}", "\u{10400}", "Foo Bar", "\u{a0}I\u{3000}", "e\u{301}", "\u{c5}ngstr\u{f6}m",
    ];
    for w in words {
        for p in [Prof::UserMapped, Prof::UserPreserved, Prof::Opaque, Prof::Nick] {
            v.push((p, 0, w.to_string(), String::new()));
            v.push((p, 1, w.to_string(), String::new()));
            v.push((p, 2, w.to_string(), w.to_lowercase()));
            v.push((p, 2, w.to_string(), w.to_uppercase()));
        }
        for p in [Prof::UserMapped, Prof::Nick] {
            v.push((p, 3, w.to_string(), String::new()));
        }
    }
    for cp in 0u32..0x20000 {
        let Some(c) = char::from_u32(cp) else { continue };
        let mut it = c.to_lowercase();
        let mapped = !(it.next() == Some(c) && it.next().is_none());
        if mapped || cp < 0x80 {
            v.push((Prof::UserMapped, 3, c.to_string(), String::new()));
            v.push((Prof::Nick, 3, format!("x{c}y"), String::new()));
            v.push((Prof::UserMapped, 1, c.to_string(), String::new()));
            v.push((Prof::Nick, 2, c.to_string(), c.to_lowercase().collect()));
        }
        if (0xff00..0xfff0).contains(&cp) || cp == 0x3000 {
            v.push((Prof::UserPreserved, 4, c.to_string(), String::new()));
            v.push((Prof::UserPreserved, 1, format!("a{c}"), String::new()));
        }
        if (0xa0..0x250).contains(&cp) || (0x2000..0x2010).contains(&cp) {
            v.push((Prof::Opaque, 1, format!("p{c}q"), String::new()));
            v.push((Prof::Nick, 1, format!("p{c}q"), String::new()));
        }
    }
    v
}

pub fn results() -> Vec<String> {
    battery()
        .iter()
        .map(|(p, k, a, b)| {
            guard(|| match k {
                0 => fmt_res(&imp_prepare(*p, a)),
                1 => fmt_res(&imp_enforce(*p, a)),
                2 => format!("{:?}", imp_compare(*p, a, b)),
                3 => fmt_res(&imp_rule(*p, RuleKind::Case, a)),
                _ => fmt_res(&imp_rule(*p, RuleKind::Width, a)),
            })
            .unwrap_or_else(|pn| format!("<<panic: {}>>", pn.lines().next().unwrap_or("")))
        })
        .collect()
}

pub fn child() -> i32 {
    use std::io::Write;
    let out = std::io::stdout();
    let mut w = std::io::BufWriter::new(out.lock());
    for r in results() {
        let _ = writeln!(w, "{}", esc(&r));
    }
    let _ = writeln!(w, "ENV-BATTERY-END");
    0
}

/// environments: (clear everything first?, variables)
pub fn environments() -> Vec<(bool, Vec<(&'static str, &'static str)>)> {
    let mut v: Vec<(bool, Vec<(&'static str, &'static str)>)> = Vec::new();
    for loc in ["tr_TR.UTF-8", "tr", "az_AZ.UTF-8", "az", "lt_LT.UTF-8", "lt", "el_GR.UTF-8", "C", "POSIX", "en_US.ISO-8859-1", "", "de_DE@euro", "tr_CY", "az-Latn-AZ"] {
        for var in ["LC_ALL", "LC_CTYPE", "LANG", "LANGUAGE", "LC_MESSAGES", "LC_COLLATE"] {
            if !matches!(loc, "tr_TR.UTF-8" | "az_AZ.UTF-8" | "lt_LT.UTF-8" | "C" | "") && !matches!(var, "LC_ALL" | "LANG") {
                continue;
            }
            v.push((false, vec![(var, loc)]));
        }
    }
    v.push((true, vec![]));
    v.push((true, vec![("LC_ALL", "tr_TR.UTF-8")]));
    v.push((false, vec![("LC_ALL", "tr_TR.UTF-8"), ("LANG", "lt_LT.UTF-8"), ("LANGUAGE", "az:tr")]));
    v.push((false, vec![("TZ", "Europe/Istanbul")]));
    v.push((false, vec![("RUST_BACKTRACE", "1"), ("RUST_LOG", "trace")]));
    v.push((false, vec![("HOME", "/nonexistent"), ("TMPDIR", "/nonexistent"), ("PATH", "")]));
    v
}

const CALLS: [&str; 5] = ["prepare", "enforce", "compare", "case_mapping_rule", "width_mapping_rule"];

fn env_json(clear: bool, vars: &[(&str, &str)]) -> Value {
    json!({"cleared_first": clear, "vars": vars.iter().map(|(k, v)| json!([k, v])).collect::<Vec<_>>()})
}

/// run the child under one environment and compare: `expect(i)` gives the expected line of call i (None = not compared)
pub fn check_env(clear: bool, vars: &[(&str, &str)], expect: &dyn Fn(usize) -> Option<String>, l: &mut Local) -> Check {
    let exe = std::env::current_exe().expect("current_exe");
    let mut cmd = std::process::Command::new(exe);
    cmd.args(["child", "env-battery"]);
    if clear {
        cmd.env_clear();
    }
    for (k, v) in vars {
        cmd.env(k, v);
    }
    cmd.current_dir("/");
    let out = cmd.output().expect("spawn child");
    let text = String::from_utf8_lossy(&out.stdout).to_string();
    let lines: Vec<&str> = text.lines().collect();
    let bat = battery();
    let case = |i: Option<usize>| match i {
        Some(i) => json!({"op": "environment", "env": env_json(clear, vars), "call_index": i, "profile": bat[i].0.name(), "call": CALLS[bat[i].1 as usize], "a": jstr(&bat[i].2), "b": jstr(&bat[i].3)}),
        None => json!({"op": "environment", "env": env_json(clear, vars)}),
    };
    if out.status.code() != Some(0) || lines.last() != Some(&"ENV-BATTERY-END") || lines.len() != bat.len() + 1 {
        return Err(Violation::new(case(None), "child process finishes and answers every call", format!("exit {:?}, {} lines for {} calls: {}", out.status.code(), lines.len(), bat.len(), String::from_utf8_lossy(&out.stderr).lines().last().unwrap_or(""))));
    }
    l.evals_n(bat.len() as u64);
    for (i, line) in lines.iter().take(bat.len()).enumerate() {
        if let Some(want) = expect(i) {
            if esc(&want) != *line {
                return Err(Violation::new(case(Some(i)), format!("{} (the same call in this process / the reference; the environment is not an argument)", esc(&want)), line.to_string()));
            }
        }
    }
    l.nt(hash64(&(clear, format!("{vars:?}"))));
    l.label("environment_child_ok");
    if l.want_sample() {
        l.sample(json!({"environment": env_json(clear, vars), "calls": bat.len()}));
    }
    Ok(())
}

pub fn replay_env(case: &Value, expect: &dyn Fn(usize) -> Option<String>) -> Check {
    let clear = case["env"]["cleared_first"].as_bool().unwrap_or(false);
    let owned: Vec<(String, String)> = case["env"]["vars"].as_array().map(|a| a.iter().map(|e| (e[0].as_str().unwrap().to_string(), e[1].as_str().unwrap().to_string())).collect()).unwrap_or_default();
    // leak: replay only, a handful of short strings
    let vars: Vec<(&'static str, &'static str)> = owned.into_iter().map(|(k, v)| (&*Box::leak(k.into_boxed_str()), &*Box::leak(v.into_boxed_str()))).collect();
    check_env(clear, &vars, expect, &mut Local::default())
}
