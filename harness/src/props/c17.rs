//! C17 — the PRECIS registry CSV parser reads back exactly what a row says
use crate::engine::*;
use crate::gens;
use crate::ucd;
use precis_tools::{CsvLineParser, DerivedProperties, DerivedProperty, PrecisDerivedProperty};
use proptest::collection::vec;
use proptest::prelude::*;
use serde_json::{json, Value};
use std::str::FromStr;

pub const PROP_NAMES: [&str; 7] = ["PVALID", "FREE_PVAL", "CONTEXTJ", "CONTEXTO", "DISALLOWED", "ID_DIS", "UNASSIGNED"];
fn prop_variant(i: u8) -> DerivedProperty {
    match i {
        0 => DerivedProperty::PValid,
        1 => DerivedProperty::FreePVal,
        2 => DerivedProperty::ContextJ,
        3 => DerivedProperty::ContextO,
        4 => DerivedProperty::Disallowed,
        5 => DerivedProperty::IdDis,
        _ => DerivedProperty::Unassigned,
    }
}

/// how a row is corrupted
#[derive(Clone, Debug, PartialEq, Eq, Hash)]
pub enum Mal {
    None,
    /// keep only the first k fields (k = 0: empty line, 1: code points only, 2: no description)
    DropFields(u8),
    /// property field replaced by one of the bad spellings
    BadProp(u8),
    /// code point field replaced by one of the bad spellings
    BadCp(u8),
}

#[derive(Clone, Debug, PartialEq, Eq, Hash)]
pub struct Row {
    pub start: u32,
    pub end: Option<u32>,
    pub width: u8,
    pub p1: u8,
    pub p2: Option<(u8, u8, u8)>, // second property, blanks before "or", blanks after
    pub desc: String,
    pub mal: Mal,
}

impl Row {
    fn cp_text(&self) -> String {
        let w = self.width as usize;
        match (&self.mal, self.end) {
            (Mal::BadCp(k), _) => match k % 20 {
                // numbers far above U+10FFFF whose low 32 / 64 bits are a valid code point (17 and 25 hexadecimal digits, 9 digits)
                16 => format!("1{}{:04X}", "0".repeat(12), self.start & 0xffff),
                17 => format!("1{:08X}", self.start),
                18 => format!("{:0w$X}-3{}{:06X}", self.start, "0".repeat(10), self.end.unwrap_or(self.start)),
                19 => format!("7{}{:06X}-7{}{:06X}", "0".repeat(18), self.start, "0".repeat(18), self.end.unwrap_or(self.start)),
                0 => String::new(),
                1 => format!("{:0w$X}G", self.start),
                2 => "ZZZZ".to_string(),
                3 => format!("{:X}", 0x110000u32 + self.start),
                4 => format!("{:0w$X}-", self.start),
                5 => format!("-{:0w$X}", self.start),
                6 => format!("{:0w$X}--{:0w$X}", self.start, self.end.unwrap_or(self.start)),
                7 => format!("{:0w$X} {:0w$X}", self.start, self.start),
                8 => format!("{:0w$X}-{:X}", self.start, 0x110000u32 + self.start),
                9 => format!("{:0w$X}..{:0w$X}", self.start, self.end.unwrap_or(self.start)),
                10 => format!("{:0w$X}-{:0w$X}-{:0w$X}", self.start, self.end.unwrap_or(self.start), self.end.unwrap_or(self.start)),
                11 => format!("U+{:0w$X}", self.start),
                12 => format!("{:0w$X};{:0w$X}", self.start, self.start),
                13 => format!("0x{:0w$X}", self.start),
                14 => format!("{:0w$X}?", self.start),
                _ => format!("?{:0w$X}", self.start),
            },
            (_, Some(e)) => format!("{:0w$X}-{:0w$X}", self.start, e),
            (_, None) => format!("{:0w$X}", self.start),
        }
    }
    fn prop_text(&self) -> String {
        let good = match self.p2 {
            None => PROP_NAMES[self.p1 as usize].to_string(),
            Some((q, b1, b2)) => format!("{}{}or{}{}", PROP_NAMES[self.p1 as usize], " ".repeat(b1 as usize), " ".repeat(b2 as usize), PROP_NAMES[q as usize]),
        };
        match &self.mal {
            Mal::BadProp(k) => match k % 16 {
                0 => String::new(),
                1 => good.to_lowercase(),
                2 => format!("{}X", PROP_NAMES[self.p1 as usize]),
                3 => PROP_NAMES[self.p1 as usize][1..].to_string(),
                4 => format!("{} or ", PROP_NAMES[self.p1 as usize]),
                5 => format!(" or {}", PROP_NAMES[self.p1 as usize]),
                6 => format!("{} or BOGUS", PROP_NAMES[self.p1 as usize]),
                7 => format!("BOGUS or {}", PROP_NAMES[self.p1 as usize]),
                8 => format!("{} and {}", PROP_NAMES[self.p1 as usize], PROP_NAMES[(self.p1 as usize + 1) % 7]),
                9 => "VALID".to_string(),
                // a valid single or pair with junk before or after it
                10 => match self.p2 {
                    Some(_) => format!("{} or {}", PROP_NAMES[(self.p1 as usize + 3) % 7], good),
                    None => format!("{} or {} or {}", PROP_NAMES[(self.p1 as usize + 3) % 7], good, PROP_NAMES[(self.p1 as usize + 5) % 7]),
                },
                11 => format!("?{good}"),
                12 => format!("{good}?"),
                13 => format!("42 {good}"),
                14 => format!("{good} or"),
                _ => format!("{}|{good}", PROP_NAMES[(self.p1 as usize + 2) % 7]),
            },
            _ => good,
        }
    }
    pub fn text(&self) -> String {
        match &self.mal {
            Mal::DropFields(0) => String::new(),
            Mal::DropFields(1) => self.cp_text(),
            Mal::DropFields(_) => format!("{},{}", self.cp_text(), self.prop_text()),
            _ => format!("{},{},{}", self.cp_text(), self.prop_text(), self.desc),
        }
    }
    fn well_formed(&self) -> bool {
        self.mal == Mal::None
    }
    fn json(&self) -> Value {
        let mal = match &self.mal {
            Mal::None => json!(["none", 0]),
            Mal::DropFields(k) => json!(["drop", k]),
            Mal::BadProp(k) => json!(["prop", k]),
            Mal::BadCp(k) => json!(["cp", k]),
        };
        json!({"line": jstr(&self.text()), "well_formed": self.well_formed(),
            "replay": {"start": self.start, "end": self.end, "width": self.width, "p1": self.p1, "p2": self.p2.map(|(a, b, c)| json!([a, b, c])), "desc": self.desc, "mal": mal}})
    }
}

/// compare one parse result with what the generator put into the row; `term` = allowed line terminator
fn compare(row: &Row, got: &Result<PrecisDerivedProperty, precis_tools::Error>, term: &str) -> Result<(), (String, String)> {
    if !row.well_formed() {
        return match got {
            Err(_) => Ok(()),
            Ok(p) => Err(("Err(_) for a malformed row".into(), format!("Ok({p:?})"))),
        };
    }
    let p = match got {
        Ok(p) => p,
        Err(e) => return Err(("Ok(row)".into(), format!("Err({e})"))),
    };
    let cps_ok = match (&p.codepoints, row.end) {
        (ucd_parse::Codepoints::Single(c), None) => c.value() == row.start,
        (ucd_parse::Codepoints::Range(r), Some(e)) => r.start.value() == row.start && r.end.value() == e,
        _ => false,
    };
    let props_ok = match (&p.properties, row.p2) {
        (DerivedProperties::Single(x), None) => *x == prop_variant(row.p1),
        (DerivedProperties::Tuple((x, y)), Some((q, _, _))) => *x == prop_variant(row.p1) && *y == prop_variant(q),
        _ => false,
    };
    let desc_ok = p.description == format!("{}{}", row.desc, term) || (term.is_empty() && p.description == row.desc);
    if cps_ok && props_ok && desc_ok {
        Ok(())
    } else {
        Err((
            format!("codepoints {:X}{} props {}{} description \"{}\"", row.start, row.end.map(|e| format!("-{e:X}")).unwrap_or_default(), PROP_NAMES[row.p1 as usize],
                row.p2.map(|(q, _, _)| format!(" or {}", PROP_NAMES[q as usize])).unwrap_or_default(), esc(&row.desc)),
            format!("{p:?}"),
        ))
    }
}

fn note_nt(row: &Row, l: &mut Local) {
    let nt = row.desc.contains(',') || row.end.is_some() || row.p2.is_some() || matches!(row.mal, Mal::BadProp(_) | Mal::DropFields(2));
    if nt {
        l.nt(hash64(row));
        l.label(match (&row.mal, row.desc.contains(',')) {
            (Mal::None, true) => "well_formed:comma_in_description",
            (Mal::None, false) => "well_formed:range_or_pair",
            (Mal::BadProp(_), _) => "malformed:property",
            (Mal::BadCp(_), _) => "malformed:codepoint",
            (Mal::DropFields(_), _) => "malformed:missing_field",
        });
        if l.want_sample() {
            l.sample(json!({"line": esc(&row.text()), "well_formed": row.well_formed()}));
        }
    } else {
        l.label(if row.well_formed() { "well_formed:plain" } else { "malformed:first_field_or_empty" });
    }
}

pub fn check_row(row: &Row, l: &mut Local) -> Check {
    let text = row.text();
    l.eval();
    let got = guard(|| PrecisDerivedProperty::from_str(&text)).map_err(|p| Violation::new(json!({"op": "row", "row": row.json()}), "no panic", format!("panic: {p}")))?;
    if let Err((e, o)) = compare(row, &got, "") {
        return Err(Violation::new(json!({"op": "row", "row": row.json()}), e, o));
    }
    // the property field on its own
    if !matches!(row.mal, Mal::DropFields(0) | Mal::DropFields(1) | Mal::BadCp(_)) {
        let pt = row.prop_text();
        l.eval();
        let r = guard(|| DerivedProperties::from_str(&pt)).map_err(|p| Violation::new(json!({"op": "properties", "text": pt}), "no panic", format!("panic: {p}")))?;
        let ok = match (&r, matches!(row.mal, Mal::BadProp(_)), row.p2) {
            (Err(_), true, _) => true,
            (Ok(DerivedProperties::Single(x)), false, None) => *x == prop_variant(row.p1),
            (Ok(DerivedProperties::Tuple((x, y))), false, Some((q, _, _))) => *x == prop_variant(row.p1) && *y == prop_variant(q),
            _ => false,
        };
        if !ok {
            return Err(Violation::new(json!({"op": "properties", "text": pt, "row": row.json()}), if matches!(row.mal, Mal::BadProp(_)) { "Err(_)".to_string() } else { format!("the pair/single the text names") }, format!("{r:?}")));
        }
    }
    note_nt(row, l);
    Ok(())
}

/// what my own strict reading says about an arbitrary line
pub enum RefLine {
    WellFormed { start: u32, end: Option<u32>, p1: u8, p2: Option<u8>, desc: String },
    Malformed,
    Unspecified,
}

pub fn ref_line(line: &str) -> RefLine {
    let Some(c1) = line.find(',') else { return RefLine::Malformed };
    let rest = &line[c1 + 1..];
    let Some(c2) = rest.find(',') else { return RefLine::Malformed };
    let (cps, props, desc) = (&line[..c1], &rest[..c2], &rest[c2 + 1..]);
    let hexok = |s: &str| (4..=6).contains(&s.len()) && s.bytes().all(|b| b.is_ascii_digit() || (b'A'..=b'F').contains(&b));
    let mut unspecified = false;
    let mut cp_val: Option<(u32, Option<u32>)> = None;
    if cps.trim().is_empty() || cps.chars().any(|c| !(c.is_ascii_hexdigit() || c == '-' || c == '+' || c.is_whitespace())) {
        return RefLine::Malformed;
    }
    if cps.chars().any(|c| c.is_whitespace()) {
        unspecified = true; // whether blanks around a code point are tolerated is not part of the statement
    }
    // a hexadecimal number above 10FFFF, however long, is not a code point
    let too_big = |s: &str| !s.is_empty() && s.bytes().all(|b| b.is_ascii_hexdigit()) && {
        let t = s.trim_start_matches('0');
        t.len() > 6 || u32::from_str_radix(if t.is_empty() { "0" } else { t }, 16).map(|v| v > 0x10ffff).unwrap_or(true)
    };
    if too_big(cps) || cps.split_once('-').map(|(a, b)| too_big(a) || too_big(b)).unwrap_or(false) {
        return RefLine::Malformed;
    }
    if hexok(cps) {
        let v = u32::from_str_radix(cps, 16).unwrap();
        if v > 0x10ffff {
            return RefLine::Malformed;
        }
        cp_val = Some((v, None));
    } else if let Some((a, b)) = cps.split_once('-') {
        if hexok(a) && hexok(b) {
            let (x, y) = (u32::from_str_radix(a, 16).unwrap(), u32::from_str_radix(b, 16).unwrap());
            if x > 0x10ffff || y > 0x10ffff {
                return RefLine::Malformed;
            }
            if x <= y {
                cp_val = Some((x, Some(y)));
            } else {
                unspecified = true;
            }
        } else {
            unspecified = true;
        }
    } else {
        unspecified = true;
    }
    let name = |s: &str| PROP_NAMES.iter().position(|n| *n == s).map(|i| i as u8);
    let mut pv: Option<(u8, Option<u8>)> = None;
    // Tokens are separated by ANY whitespace: which blanks a parser tolerates is not part of the statement, so a field is
    // only called malformed when it is malformed under every whitespace treatment, and only called well-formed when its
    // separators are plain ASCII spaces with nothing before or after.
    let toks: Vec<&str> = props.split(char::is_whitespace).filter(|t| !t.is_empty()).collect();
    let plain_spaces_only = !props.chars().any(|c| c.is_whitespace() && c != ' ') && !props.starts_with(' ') && !props.ends_with(' ');
    let known = |t: &str| name(t).is_some() || t == "or";
    if toks.is_empty() {
        return RefLine::Malformed;
    } else if toks.iter().all(|t| known(t)) {
        match toks.as_slice() {
            [a] if name(a).is_some() => {
                if plain_spaces_only { pv = Some((name(a).unwrap(), None)) } else { unspecified = true }
            }
            [a, o, b] if *o == "or" && name(a).is_some() && name(b).is_some() => {
                if plain_spaces_only { pv = Some((name(a).unwrap(), name(b))) } else { unspecified = true }
            }
            _ => return RefLine::Malformed, // wrong number of members / misplaced 'or'
        }
    } else if toks.iter().any(|t| !known(t) && !PROP_NAMES.iter().any(|n| n.eq_ignore_ascii_case(t)) && !t.eq_ignore_ascii_case("or")) {
        return RefLine::Malformed; // a token that is not a property name under any reading
    } else {
        unspecified = true; // e.g. lower-case spellings
    }
    match (unspecified, cp_val, pv) {
        (false, Some((start, end)), Some((p1, p2))) => RefLine::WellFormed { start, end, p1, p2, desc: desc.to_string() },
        _ => RefLine::Unspecified,
    }
}

/// arbitrary text through PrecisDerivedProperty::from_str against my strict reading (fuzz target `csv`)
pub fn check_line_text(line: &str, l: &mut Local) -> Check {
    l.eval();
    let case = || json!({"op": "line_text", "line": jstr(line)});
    let got = guard(|| PrecisDerivedProperty::from_str(line)).map_err(|p| Violation::new(case(), "no panic", format!("panic: {p}")))?;
    match ref_line(line) {
        RefLine::Unspecified => Ok(()),
        RefLine::Malformed => match got {
            Err(_) => Ok(()),
            Ok(p) => Err(Violation::new(case(), "Err(_) for a malformed row", format!("Ok({p:?})"))),
        },
        RefLine::WellFormed { start, end, p1, p2, desc } => {
            let row = Row { start, end, width: 4, p1, p2: p2.map(|q| (q, 1, 1)), desc, mal: Mal::None };
            compare(&row, &got, "").map_err(|(e, o)| Violation::new(case(), e, o))
        }
    }
}

pub fn check_name(text: &str, l: &mut Local) -> Check {
    l.eval();
    let r = guard(|| DerivedProperty::from_str(text)).map_err(|p| Violation::new(json!({"op": "property_name", "text": text}), "no panic", format!("panic: {p}")))?;
    let want = PROP_NAMES.iter().position(|n| *n == text).map(|i| prop_variant(i as u8));
    let ok = match (&r, want) {
        (Ok(x), Some(w)) => *x == w,
        (Err(_), None) => true,
        _ => false,
    };
    if !ok {
        return Err(Violation::new(json!({"op": "property_name", "text": jstr(text)}), format!("{want:?}"), format!("{r:?}")));
    }
    Ok(())
}

/// a whole file through CsvLineParser::from_path
pub fn check_file(rows: &[Row], crlf: bool, final_newline: bool, header: &str, dir: &std::path::Path, l: &mut Local) -> Check {
    let term = if crlf { "\r\n" } else { "\n" };
    let mut text = String::new();
    text.push_str(header);
    text.push_str(term);
    for (i, r) in rows.iter().enumerate() {
        text.push_str(&r.text());
        if i + 1 < rows.len() || final_newline {
            text.push_str(term);
        }
    }
    let path = dir.join("t.csv");
    std::fs::write(&path, &text).expect("write csv");
    let case = || json!({"op": "file", "crlf": crlf, "final_newline": final_newline, "header": header, "rows": rows.iter().map(|r| r.json()).collect::<Vec<_>>()});
    l.eval();
    let items: Vec<Result<PrecisDerivedProperty, precis_tools::Error>> = guard(|| {
        let parser: CsvLineParser<std::fs::File, PrecisDerivedProperty> = CsvLineParser::from_path(&path).expect("open");
        parser.collect()
    })
    .map_err(|p| Violation::new(case(), "no panic", format!("panic: {p}")))?;
    // an empty last row without a final newline produces no line at all
    let mut expect_rows: Vec<&Row> = rows.iter().collect();
    if !final_newline {
        if let Some(last) = rows.last() {
            if last.text().is_empty() {
                expect_rows.pop();
            }
        }
    }
    if items.len() != expect_rows.len() {
        return Err(Violation::new(case(), format!("{} rows delivered (header skipped)", expect_rows.len()), format!("{} rows", items.len())));
    }
    for (i, (row, got)) in expect_rows.iter().zip(items.iter()).enumerate() {
        let last = i + 1 == rows.len();
        let t = if last && !final_newline { "" } else { term };
        if let Err((e, o)) = compare(row, got, t) {
            return Err(Violation::new(case(), format!("row {i}: {e}"), o));
        }
        if let Err(e) = got {
            let want_line = Some(i as u64 + 2);
            if e.line() != want_line {
                return Err(Violation::new(case(), format!("error of row {i} carries line {want_line:?}"), format!("{:?}", e.line())));
            }
        }
    }
    // other ways of consuming the iterator must deliver the same rows: nth / skip / step_by / last / count on a fresh parser
    let show = |r: &Result<PrecisDerivedProperty, precis_tools::Error>| match r {
        Ok(p) => format!("Ok({p:?})"),
        Err(e) => format!("Err(line {:?})", e.line()),
    };
    let fresh = || -> CsvLineParser<std::fs::File, PrecisDerivedProperty> { CsvLineParser::from_path(&path).expect("open") };
    let n = items.len();
    let k = (hash64(&(rows.len(), crlf, final_newline, header.len())) as usize) % (n + 2);
    l.evals_n(5);
    let probes: Vec<(String, Option<String>, Option<String>)> = guard(|| {
        vec![
            (format!("nth({k}) as the first call"), fresh().nth(k).as_ref().map(show), items.get(k).map(show)),
            (format!("skip({k}).next()"), fresh().skip(k).next().as_ref().map(show), items.get(k).map(show)),
            ("last()".to_string(), fresh().last().as_ref().map(show), items.last().map(show)),
            ("count()".to_string(), Some(fresh().count().to_string()), Some(n.to_string())),
            ("step_by(2).nth(1)".to_string(), fresh().step_by(2).nth(1).as_ref().map(show), items.get(2).map(show)),
        ]
    })
    .map_err(|p| Violation::new(case(), "no panic", format!("panic: {p}")))?;
    for (what, got, want) in probes {
        if got != want {
            return Err(Violation::new(case(), format!("{what} delivers the same row as sequential iteration: {want:?}"), format!("{got:?}")));
        }
    }
    if rows.len() >= 2 {
        l.nt(hash64(&(rows, crlf, final_newline)));
        l.label(if rows.iter().any(|r| !r.well_formed()) { "file_with_malformed_rows" } else { "file_all_well_formed" });
    }
    Ok(())
}

/// the same file content through other media and with lines that are not valid UTF-8:
/// medium 0 = regular file, 1 = symbolic link whose path has a blank and a non-ASCII character, 2 = named pipe fed by a writer thread;
/// `corrupt` = file lines (0 = header, k = row k-1) in which the byte before the line terminator is replaced by 0xFF.
/// Expected: a corrupted row yields SOME error item in its place (the statement does not say which); a corrupted header is skipped or
/// yields one error item; every other row is delivered exactly as in `check_file` (content, order, line numbers of malformed rows).
pub fn check_file_medium(rows: &[Row], crlf: bool, header: &str, medium: u8, corrupt: &[usize], dir: &std::path::Path, l: &mut Local) -> Check {
    let term = if crlf { "\r\n" } else { "\n" };
    let mut bytes: Vec<u8> = Vec::new();
    let mut corrupted_rows: Vec<bool> = vec![false; rows.len()];
    let mut header_corrupted = false;
    let push_line = |text: &str, idx: usize, bytes: &mut Vec<u8>| -> bool {
        let start = bytes.len();
        bytes.extend_from_slice(text.as_bytes());
        let hit = corrupt.contains(&idx) && bytes.len() > start;
        if hit {
            // replace the last character of the line (all of its bytes) by one 0xFF byte
            let last_len = text.chars().last().map(|c| c.len_utf8()).unwrap_or(0);
            bytes.truncate(bytes.len() - last_len);
            bytes.push(0xff);
        }
        bytes.extend_from_slice(term.as_bytes());
        hit
    };
    header_corrupted |= push_line(header, 0, &mut bytes);
    for (i, r) in rows.iter().enumerate() {
        corrupted_rows[i] = push_line(&r.text(), i + 1, &mut bytes);
    }
    let case = || json!({"op": "file_medium", "crlf": crlf, "header": header, "medium": medium, "corrupt_lines": corrupt, "rows": rows.iter().map(|r| r.json()).collect::<Vec<_>>(),
        "reading": "medium 0 regular file, 1 symlink with blank and non-ASCII in its path, 2 named pipe; corrupt_lines: 0 = header, k = row k-1, last character replaced by byte 0xFF"});
    let plain = dir.join("m.csv");
    let path = match medium {
        0 => {
            std::fs::write(&plain, &bytes).expect("write csv");
            plain.clone()
        }
        1 => {
            std::fs::write(&plain, &bytes).expect("write csv");
            let link = dir.join("li nk \u{e9}\u{6f22}.csv");
            let _ = std::fs::remove_file(&link);
            std::os::unix::fs::symlink(&plain, &link).expect("symlink");
            link
        }
        _ => {
            let fifo = dir.join("pipe.csv");
            let _ = std::fs::remove_file(&fifo);
            let ok = std::process::Command::new("mkfifo").arg(&fifo).status().map(|s| s.success()).unwrap_or(false);
            if !ok {
                l.label("skipped:no_mkfifo");
                return Ok(());
            }
            fifo
        }
    };
    l.eval();
    let items: Vec<Result<PrecisDerivedProperty, precis_tools::Error>> = std::thread::scope(|s| {
        if medium >= 2 {
            let (p2, b2) = (path.clone(), &bytes);
            s.spawn(move || {
                use std::io::Write;
                if let Ok(mut f) = std::fs::OpenOptions::new().write(true).open(&p2) {
                    let _ = f.write_all(b2);
                }
            });
        }
        guard(|| {
            let parser: CsvLineParser<std::fs::File, PrecisDerivedProperty> = CsvLineParser::from_path(&path).expect("open");
            parser.collect()
        })
    })
    .map_err(|p| Violation::new(case(), "no panic", format!("panic: {p}")))?;
    let mut items = &items[..];
    // a header that is not valid UTF-8: skipped, or reported as one error item
    if header_corrupted && items.len() == rows.len() + 1 && items[0].is_err() {
        items = &items[1..];
    }
    if items.len() != rows.len() {
        return Err(Violation::new(case(), format!("{} rows delivered (header skipped)", rows.len()), format!("{} rows", items.len())));
    }
    for (i, (row, got)) in rows.iter().zip(items.iter()).enumerate() {
        if corrupted_rows[i] {
            if got.is_ok() {
                return Err(Violation::new(case(), format!("row {i} (not valid UTF-8) is reported as an error"), format!("{got:?}")));
            }
            continue;
        }
        if let Err((e, o)) = compare(row, got, term) {
            return Err(Violation::new(case(), format!("row {i}: {e}"), o));
        }
        if let Err(e) = got {
            let want_line = Some(i as u64 + 2);
            if e.line() != want_line {
                return Err(Violation::new(case(), format!("error of row {i} carries line {want_line:?}"), format!("{:?}", e.line())));
            }
        }
    }
    if rows.len() >= 2 {
        l.nt(hash64(&(rows, crlf, medium, corrupt)));
        l.label(match (medium, corrupt.is_empty()) {
            (0, false) => "regular_file_with_non_utf8_lines",
            (1, _) => "through_symlink",
            (2, _) => "through_named_pipe",
            _ => "regular_file",
        });
    }
    Ok(())
}

fn desc_strategy() -> BoxedStrategy<String> {
    let ch = prop_oneof![
        50 => (0x20u8..0x7f).prop_map(|b| b as char),
        15 => Just(','),
        5 => Just('"'),
        5 => Just(';'),
        5 => Just('-'),
        20 => gens::gchar().prop_filter("no line terminators", |c| *c != '\n' && *c != '\r'),
    ];
    prop_oneof![1 => Just(String::new()), 9 => vec(ch, 0..=40).prop_map(gens::s_of)].boxed()
}

pub fn row_strategy(mal_weight: u32) -> BoxedStrategy<Row> {
    let cp = prop_oneof![3 => 0u32..0x3000, 3 => 0u32..=0x10ffff, 1 => Just(0u32), 1 => Just(0x10ffffu32), 1 => 0xd800u32..0xe000];
    let mal = prop_oneof![
        (100 - mal_weight) => Just(Mal::None),
        mal_weight / 3 + 1 => (0u8..3).prop_map(Mal::DropFields),
        mal_weight / 3 + 1 => (0u8..16).prop_map(Mal::BadProp),
        mal_weight / 3 + 1 => (0u8..20).prop_map(Mal::BadCp),
    ];
    (cp.clone(), proptest::option::weighted(0.4, cp), 4u8..=6, 0u8..7, proptest::option::weighted(0.3, (0u8..7, 1u8..=3, 1u8..=3)), desc_strategy(), mal)
        .prop_map(|(a, b, width, p1, p2, desc, mal)| {
            let (start, end) = match b {
                Some(b) => (a.min(b), Some(a.max(b))),
                None => (a, None),
            };
            Row { start, end, width, p1, p2, desc, mal }
        })
        .boxed()
}

pub fn run(run: &Run) {
    run.set_rule(
        "Generator: structured rows: code point or start-end (4-6 upper-case hex digits, zero padded, all values 0..=0x10FFFF incl. surrogates, start <= end), \
         one of the 7 property names or an ordered pair joined by 'or' with 1-3 blanks either side, description = arbitrary text without line terminators \
         (commas, quotes, non-ASCII, empty); malformed rows by construction: 0/1/2 fields only, 16 bad property spellings (typo, lower case, dangling or \
         leading 'or', unknown member, 'and', a valid single/pair with junk or a third member before or after it), 20 bad code point spellings (numbers of 9 / 17 / 25 hexadecimal digits whose low 32 / 64 bits are a valid code point, empty, non-hex, \
         > 10FFFF, dangling/doubled/tripled '-', blank inside, '..', 'U+', '0x', junk prefix/suffix); whole files \
         (header + 0..12 rows, and big files of 100..600 rows with descriptions up to 300 characters; LF or CRLF, with/without final newline; files with single lines of 4 KiB .. 32 MiB) written under /verif/work and read through \
         CsvLineParser::from_path by sequential iteration AND by nth/skip/step_by/last/count on a fresh parser; every \
         property-name string of the 7 names and near-misses; the real IANA file against my own CSV reader. Deliberately not asserted either way: \
         lower-case or sign-prefixed hex, over-long zero padding, reversed ranges. Oracle: round trip against the generator's structured row (same code \
         points, property/pair, description up to the terminator; file order; header skipped; error with line number k for a malformed row on file line k; \
         never a panic). Non-trivial: description contains a comma, or range, or pair, or malformed in a non-first field; distinct = distinct row / file.",
    );
    // the real registry file
    run.par("iana_file", true, |tid, _n, l| {
        if tid != 0 {
            return;
        }
        let path = ucd::data_dir().join("csv/precis-tables-6.3.0.csv");
        let mine = ucd::parse_iana_csv(&ucd::read(&path));
        let parser: CsvLineParser<std::fs::File, PrecisDerivedProperty> = CsvLineParser::from_path(&path).expect("open");
        let theirs: Vec<_> = parser.collect();
        l.evals_n(theirs.len() as u64);
        l.cases += 1;
        let mut ok = theirs.len() == mine.len();
        let mut first_bad = String::new();
        if ok {
            for (i, (m, t)) in mine.iter().zip(theirs.iter()).enumerate() {
                let good = match t {
                    Ok(p) => {
                        let (a, b) = match &p.codepoints {
                            ucd_parse::Codepoints::Single(c) => (c.value(), c.value()),
                            ucd_parse::Codepoints::Range(r) => (r.start.value(), r.end.value()),
                        };
                        let props: Vec<String> = match &p.properties {
                            DerivedProperties::Single(x) => vec![format!("{x:?}")],
                            DerivedProperties::Tuple((x, y)) => vec![format!("{x:?}"), format!("{y:?}")],
                        };
                        let mp: Vec<String> = m.props.iter().map(|n| format!("{:?}", prop_variant(PROP_NAMES.iter().position(|x| x == n).unwrap() as u8))).collect();
                        a == m.start && b == m.end && props == mp && p.description.trim_end_matches(['\r', '\n']) == m.desc
                    }
                    Err(_) => false,
                };
                if !good {
                    ok = false;
                    first_bad = format!("row {i}: {t:?}");
                    break;
                }
                l.nt(hash64(&("iana", i)));
            }
        }
        if !ok {
            run.violate(Violation::new(json!({"op": "iana_file"}), format!("{} rows identical to my own reading of the file", mine.len()), format!("{} rows; {first_bad}", theirs.len())));
        }
    });
    // property names
    run.par("property_names", true, |tid, _n, l| {
        if tid != 0 {
            return;
        }
        for n in PROP_NAMES {
            let mut variants = vec![n.to_string(), n.to_lowercase(), format!(" {n}"), format!("{n} "), format!("{n}S"), n[..n.len() - 1].to_string(), n.replace('_', ""), n.replace('_', " "), String::new()];
            let mut cs: Vec<char> = n.chars().collect();
            cs.swap(0, 1);
            variants.push(cs.into_iter().collect());
            for v in variants {
                l.cases += 1;
                if let Err(v) = check_name(&v, l) {
                    run.violate(v);
                    return;
                }
            }
        }
    });
    run.prop("rows", run.pick(1_000_000, 30_000_000), || row_strategy(40), |row, l| check_row(row, l));
    // files
    let base = ucd::verif_dir().join("work").join(format!("c17-{}", std::process::id()));
    let base2 = base.clone();
    run.prop(
        "files",
        run.pick(20_000, 400_000),
        || (vec(row_strategy(20), 0..=12), any::<bool>(), any::<bool>(), prop_oneof![Just("Codepoint,Property,Description".to_string()), Just(String::new()), Just("0041,PVALID,LATIN CAPITAL LETTER A".to_string())]),
        move |(rows, crlf, fin, header), l| {
            let dir = base2.join(format!("t{}", l.tid));
            std::fs::create_dir_all(&dir).expect("mkdir work");
            check_file(rows, *crlf, *fin, header, &dir, l)
        },
    );
    // big files: hundreds of rows with long descriptions (lines straddle the 8 KiB / 64 KiB read-buffer boundaries)
    let base3 = base.clone();
    let long_desc = || vec(prop_oneof![8 => (0x20u8..0x7f).prop_map(|b| b as char), 1 => Just(','), 1 => gens::gchar().prop_filter("no line terminators", |c| *c != '\n' && *c != '\r')], 0..=300).prop_map(gens::s_of);
    run.prop(
        "big_files",
        run.pick(400, 8_000),
        move || (vec((row_strategy(10), long_desc()), 100..=600), any::<bool>(), any::<bool>()),
        move |(rows, crlf, fin), l| {
            let rows: Vec<Row> = rows.iter().map(|(r, d)| { let mut r = r.clone(); if r.desc.len() % 3 == 0 { r.desc = d.clone(); } r }).collect();
            let dir = base3.join(format!("b{}", l.tid));
            std::fs::create_dir_all(&dir).expect("mkdir work");
            check_file(&rows, *crlf, *fin, "Codepoint,Property,Description", &dir, l)
        },
    );
    // the same kind of files through a symbolic link / a named pipe, and with lines (header included) that are not valid UTF-8
    let base6 = base.clone();
    run.prop(
        "media_and_non_utf8_lines",
        run.pick(6_000, 100_000),
        move || (vec(row_strategy(25), 1..=12), any::<bool>(), 0u8..3, vec(0usize..14, 0..3), any::<bool>()),
        move |(rows, crlf, medium, corrupt, plain_header), l| {
            // empty rows have no byte to corrupt and an empty last line is not a line: keep rows non-empty here
            let rows: Vec<Row> = rows.iter().filter(|r| !r.text().is_empty()).cloned().collect();
            let dir = base6.join(format!("m{}", l.tid));
            std::fs::create_dir_all(&dir).expect("mkdir work");
            let header = if *plain_header { "Codepoint,Property,Description" } else { "Codepoint,Property,Descripci\u{f3}n" };
            check_file_medium(&rows, *crlf, header, *medium, corrupt, &dir, l)
        },
    );
    // very long files: 65 540 / 131 080 / 1 100 000 rows (thorough: 4 200 000) with malformed rows at lines around 256, 65 536, 131 072 and at the very end
    // (line counters, row-count thresholds)
    let base5 = base.clone();
    run.par("very_long_files", true, |tid, n, l| {
        let counts: Vec<usize> = run.pick(vec![65_540usize, 131_080, 1_100_000], vec![65_540usize, 131_080, 1_100_000, 4_200_000]);
        for (i, count) in counts.iter().enumerate() {
            for (vi, crlf) in [false, true].into_iter().enumerate() {
                if (i * 2 + vi) % n != tid {
                    continue;
                }
                let dir = base5.join(format!("v{tid}"));
                std::fs::create_dir_all(&dir).expect("mkdir work");
                let mut rows: Vec<Row> = (0..*count).map(|k| Row { start: 0x41 + (k % 5000) as u32, end: if k % 7 == 0 { Some(0x41 + (k % 5000) as u32 + 3) } else { None }, width: 4, p1: (k % 7) as u8, p2: None, desc: "d".to_string(), mal: Mal::None }).collect();
                for at in [254usize, 255, 256, 257, 65_533, 65_534, 65_535, 65_536, 65_537, 131_070, 131_071, 131_072, 131_073, 1_048_575, 1_048_576, count - 1] {
                    if at < *count {
                        rows[at].mal = [Mal::BadProp(2), Mal::BadCp(2), Mal::DropFields(2)][at % 3].clone();
                    }
                }
                l.cases += 1;
                if let Err(v) = check_file(&rows, crlf, true, "Codepoint,Property,Description", &dir, l) {
                    run.violate(Violation::new(json!({"op": "very_long_file", "rows": count, "crlf": crlf, "note": "c17.rs very_long_files: malformed rows at lines around 256, 65536, 131072, 2^20 and the last one"}), v.expected, v.observed.chars().take(300).collect::<String>()));
                    return;
                }
            }
        }
    });
    // huge lines: descriptions around the usual buffer / limit sizes, followed by normal and malformed rows
    let base4 = base.clone();
    run.par("huge_lines", true, |tid, n, l| {
        let mut sizes = vec![4095usize, 4096, 4097, 8190, 8191, 8192, 8193, 16384, 65534, 65535, 65536, 65537, 70000, 131071, 131073, 300000, 1 << 20, (1 << 20) + 1, 4 << 20, (16 << 20) - 1, (16 << 20) + 100, (32 << 20) + 7, (64 << 20) + 5];
        if run.tier == Tier::Thorough {
            sizes.push((128 << 20) + 3);
        }
        // the largest first, so that they do not all end up on one thread at the end
        sizes.reverse();
        for (i, sz) in sizes.iter().enumerate() {
            if i % n != tid {
                continue;
            }
            let dir = base4.join(format!("h{tid}"));
            std::fs::create_dir_all(&dir).expect("mkdir work");
            for unit in ["x", "a,b ", "\u{e9}", "\u{10428},"] {
                if *sz >= (1 << 20) && unit != "x" {
                    continue; // the multi-megabyte lines once each
                }
                let desc: String = unit.repeat(sz / unit.len() + 1);
                let mk = |start: u32, mal: Mal, desc: &str| Row { start, end: None, width: 4, p1: 0, p2: None, desc: desc.to_string(), mal };
                let rows = vec![
                    mk(0x41, Mal::None, "before"),
                    Row { start: 0xf900, end: Some(0xfaff), width: 4, p1: 5, p2: Some((1, 1, 1)), desc: desc.clone(), mal: Mal::None },
                    mk(0x42, Mal::None, "after"),
                    mk(0x43, Mal::BadProp(2), "malformed after the huge line"),
                    mk(0x44, Mal::None, &desc),
                    mk(0x45, Mal::DropFields(2), ""),
                ];
                for (crlf, fin) in [(false, true), (true, false)] {
                    l.cases += 1;
                    if let Err(v) = check_file(&rows, crlf, fin, "Codepoint,Property,Description", &dir, l) {
                        // keep the replay file small: report sizes instead of the text
                        run.violate(Violation::new(json!({"op": "huge_line", "description_bytes": desc.len(), "unit": unit, "crlf": crlf, "final_newline": fin}), v.expected, v.observed.chars().take(300).collect::<String>()));
                        return;
                    }
                }
            }
        }
    });
    let _ = std::fs::remove_dir_all(&base);
}

pub fn replay(_run: &Run, case: &Value) -> Check {
    let mut l = Local::default();
    let row_of = |v: &Value| -> Row {
        // rows are replayed from their text: re-derive a structured row is not needed, compare as text-level contract
        serde_row(v)
    };
    match case["op"].as_str() {
        Some("row") | Some("properties") => check_row(&row_of(&case["row"]), &mut l),
        Some("property_name") => check_name(&jget_str(case, "text").unwrap(), &mut l),
        Some("file") => {
            let rows: Vec<Row> = case["rows"].as_array().unwrap().iter().map(serde_row).collect();
            let dir = ucd::verif_dir().join("work").join(format!("c17-replay-{}", std::process::id()));
            std::fs::create_dir_all(&dir).unwrap();
            let r = check_file(&rows, case["crlf"].as_bool().unwrap(), case["final_newline"].as_bool().unwrap(), case["header"].as_str().unwrap(), &dir, &mut l);
            let _ = std::fs::remove_dir_all(&dir);
            r
        }
        Some("iana_file") => Ok(()),
        Some("file_medium") => {
            let rows: Vec<Row> = case["rows"].as_array().unwrap().iter().map(serde_row).collect();
            let dir = ucd::verif_dir().join("work").join(format!("c17-replay-{}", std::process::id()));
            std::fs::create_dir_all(&dir).unwrap();
            let corrupt: Vec<usize> = case["corrupt_lines"].as_array().unwrap().iter().map(|x| x.as_u64().unwrap() as usize).collect();
            let r = check_file_medium(&rows, case["crlf"].as_bool().unwrap(), case["header"].as_str().unwrap(), case["medium"].as_u64().unwrap() as u8, &corrupt, &dir, &mut l);
            let _ = std::fs::remove_dir_all(&dir);
            r
        }
        Some("very_long_file") => {
            let count = case["rows"].as_u64().unwrap() as usize;
            let mut rows: Vec<Row> = (0..count).map(|k| Row { start: 0x41 + (k % 5000) as u32, end: if k % 7 == 0 { Some(0x41 + (k % 5000) as u32 + 3) } else { None }, width: 4, p1: (k % 7) as u8, p2: None, desc: "d".to_string(), mal: Mal::None }).collect();
            for at in [254usize, 255, 256, 257, 65_533, 65_534, 65_535, 65_536, 65_537, 131_070, 131_071, 131_072, 131_073, 1_048_575, 1_048_576, count - 1] {
                if at < count {
                    rows[at].mal = [Mal::BadProp(2), Mal::BadCp(2), Mal::DropFields(2)][at % 3].clone();
                }
            }
            let dir = ucd::verif_dir().join("work").join(format!("c17-replay-{}", std::process::id()));
            std::fs::create_dir_all(&dir).unwrap();
            let r = check_file(&rows, case["crlf"].as_bool().unwrap_or(false), true, "Codepoint,Property,Description", &dir, &mut l);
            let _ = std::fs::remove_dir_all(&dir);
            r
        }
        Some("huge_line") => {
            let unit = case["unit"].as_str().unwrap();
            let sz = case["description_bytes"].as_u64().unwrap() as usize;
            let desc: String = unit.repeat(sz / unit.len());
            let rows = vec![
                Row { start: 0x41, end: None, width: 4, p1: 0, p2: None, desc: "before".into(), mal: Mal::None },
                Row { start: 0xf900, end: Some(0xfaff), width: 4, p1: 5, p2: Some((1, 1, 1)), desc, mal: Mal::None },
                Row { start: 0x43, end: None, width: 4, p1: 0, p2: None, desc: "x".into(), mal: Mal::BadProp(2) },
            ];
            let dir = ucd::verif_dir().join("work").join(format!("c17-replay-{}", std::process::id()));
            std::fs::create_dir_all(&dir).unwrap();
            let r = check_file(&rows, case["crlf"].as_bool().unwrap(), case["final_newline"].as_bool().unwrap(), "Codepoint,Property,Description", &dir, &mut l);
            let _ = std::fs::remove_dir_all(&dir);
            r.map_err(|v| Violation::new(case.clone(), v.expected, v.observed.chars().take(300).collect::<String>()))
        }
        Some("line_text") => check_line_text(&jget_str(case, "line").unwrap(), &mut l),
        _ => panic!("unknown C17 case"),
    }
}

/// replay files carry the structured row under "replay"
fn serde_row(v: &Value) -> Row {
    let r = &v["replay"];
    Row {
        start: r["start"].as_u64().unwrap() as u32,
        end: r["end"].as_u64().map(|x| x as u32),
        width: r["width"].as_u64().unwrap() as u8,
        p1: r["p1"].as_u64().unwrap() as u8,
        p2: r["p2"].as_array().map(|a| (a[0].as_u64().unwrap() as u8, a[1].as_u64().unwrap() as u8, a[2].as_u64().unwrap() as u8)),
        desc: r["desc"].as_str().unwrap().to_string(),
        mal: match r["mal"][0].as_str().unwrap() {
            "none" => Mal::None,
            "drop" => Mal::DropFields(r["mal"][1].as_u64().unwrap() as u8),
            "prop" => Mal::BadProp(r["mal"][1].as_u64().unwrap() as u8),
            _ => Mal::BadCp(r["mal"][1].as_u64().unwrap() as u8),
        },
    }
}
