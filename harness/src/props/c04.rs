//! C04 — username profiles apply the RFC 8265 rules, all of them, in the specified order
use super::pipe::*;
use crate::engine::*;
use crate::model::*;
use serde_json::{json, Value};

pub fn check(run: &Run, p: Prof, s: &str, l: &mut Local) -> Check {
    let prep = check_pipe(run, p, Op::Prepare, s, l)?;
    let enf = check_pipe(run, p, Op::Enforce, s, l)?;
    // every failure of prepare is also the result of enforce
    if let Err(e) = &prep.got {
        if enf.got != Err(e.clone()) {
            return Err(Violation::new(case_json(p, Op::Enforce, s), format!("the error of prepare: Err({e:?})"), fmt_res(&enf.got)));
        }
    }
    if prep.got.is_ok() {
        l.label("prepare_accepted");
        let t = &enf.trace;
        let steps = [prep.trace.width_changed, t.case_changed, t.norm_changed, t.has_rtl];
        let n = steps.iter().filter(|x| **x).count();
        if enf.got.is_ok() {
            l.label("enforce_accepted");
        }
        if t.has_rtl {
            l.label("bidi_rule_decides");
        }
        if n >= 2 {
            l.nt(hash64(&(p, s)));
            l.label("two_or_more_steps_interact");
            if l.want_sample() {
                l.sample(json!({"profile": p.name(), "input": esc(s), "prepare": fmt_res(&prep.got), "enforce": fmt_res(&enf.got),
                    "steps": {"width": steps[0], "case": steps[1], "nfc": steps[2], "rtl": steps[3]}}));
            }
        }
    } else {
        l.label("prepare_rejected");
    }
    Ok(())
}

pub fn run(run: &Run) {
    run.set_rule(
        "Generator: proptest strings for IdentifierClass: 45% valid-biased (members of the PVALID set with 0-2 injected risky characters: width-mappable, \
         cased, decomposed/composing, contextual, right-to-left), 20% dense mixes of cased+composing+width+contextual characters, 20% right-to-left \
         labels (R/AL/AN/EN/NSM/ES/CS/ET/ON/BN members) with composing and cased characters, 15% arbitrary pool strings, plus fixed corner cases and ALL strings of \
         length <= 4 (quick) / 5 (thorough) over a 32-character alphabet in which every step has work to do (fullwidth/halfwidth, cased, titlecase, composing, RTL, \
         contextual, Cherokee, Deseret); both \
         username profiles; prepare and enforce on every input. Oracle: independent model (width map from UnicodeData 16.0.0 -> non-empty -> \
         IdentifierClass reference scan -> per-char to_lowercase [mapped profile] -> ICU4X NFC -> non-empty -> RFC 5893 rule) giving the set of \
         allowed results; enforce error == prepare error. Non-trivial: prepare accepts and at least two of {width mapping changed, case mapping \
         changed, NFC changed, label has R/AL/AN} hold (step order observable); distinct = distinct (profile,input). Plus the deterministic long-input / call-order batteries of DESIGN.md 8.1 and 8.2 that apply to this property (extreme scale, mark neighbours, distinct runs with repeats, environment children, thread lifetime, concurrent distinct inputs; alignment sweeps 0..72 and around 128..65536 bytes, runs and exact counts, sandwiches and multi-megabyte inputs, exhaustive pair sets, plane/byte aliases, hash-colliding pairs back to back, owned arguments with spare capacity); each battery is a finite list enumerated completely and appears as its own section in 'sections'.",
    );
    run.assume("K1 (interior NSM rejected by the directionality rule) is a listed known finding: a mismatch is excused only when the model's input to the directionality step has an NSM followed by a non-NSM, the RFC rule accepts and the implementation answers Invalid");
    let profs = [Prof::UserMapped, Prof::UserPreserved];
    run.par("corner_cases", true, |tid, _n, l| {
        if tid != 0 {
            return;
        }
        for s in ["", "a", "A", "\u{ff21}", "\u{ff01}", "\u{ffa0}", "\u{3000}", "\u{ff21}\u{30a}", "A\u{30a}", "\u{212b}", "\u{5d0}\u{5b8}\u{5d1}", "\u{5d0}1", "1\u{5d0}",
            "\u{627}\u{661}\u{6f1}", "\u{130}", "\u{1c5}", "\u{3a3}", "\u{13a0}", "e\u{301}", "\u{ff76}\u{ff9e}", "l\u{b7}l", "\u{94d}\u{200d}", "a\u{200d}", "\u{200d}"] {
            for p in profs {
                l.cases += 1;
                if check(run, p, s, l).is_err() {
                    shrink_report(run, p, Op::Enforce, s);
                    shrink_report(run, p, Op::Prepare, s);
                    return;
                }
            }
        }
    });
    let l3 = run.pick(4u32, 5u32);
    enum_strings(run, "enum_alpha_user", &ALPHA_USER, l3, &|s, l| {
        for p in profs {
            if check(run, p, s, l).is_err() {
                shrink_report(run, p, Op::Enforce, s);
                shrink_report(run, p, Op::Prepare, s);
                return false;
            }
        }
        true
    });
    enum_strings_padded(run, "enum_alpha_user_long_pads", &ALPHA_USER, run.pick(3u32, 4u32), &|s, l| {
        for p in profs {
            if check(run, p, s, l).is_err() {
                shrink_report(run, p, Op::Enforce, s);
                return false;
            }
        }
        true
    });
    // ZWNJ between transparent runs (contextual rule inside prepare/enforce), contextual families
    let mut labels = zwnj_run_labels();
    labels.extend(PAYLOADS_FAMILIES.iter().map(|s| s.to_string()));
    battery(run, "zwnj_long_runs", &labels, &|s, l| {
        for p in profs {
            if let Err(v) = check(run, p, s, l) {
                run.violate(v);
                return false;
            }
        }
        true
    });
    composing_pairs(run, "all_composing_pairs", &|s, l| profs.iter().all(|p| match check(run, *p, s, l) {
        Ok(()) => true,
        Err(_) => {
            shrink_report(run, *p, Op::Enforce, s);
            false
        }
    }));
    battery(run, "misordered_marks", &misordered_mark_strings(), &|s, l| profs.iter().all(|p| match check(run, *p, s, l) {
        Ok(()) => true,
        Err(v) => {
            run.violate(v);
            false
        }
    }));
    {
        let mut all = mark_neighbour_strings(0);
        all.extend(mark_neighbour_strings(1));
        battery(run, "mark_neighbours", &all, &|s, l| profs.iter().all(|p| match check(run, *p, s, l) {
            Ok(()) => true,
            Err(v) => {
                run.violate(v);
                false
            }
        }));
    }
    {
        let mut all = many_distinct_then_offender(false);
        all.extend(pairs_at_block_cuts(false));
        battery(run, "many_distinct_and_pairs_at_block_cuts", &all, &|s, l| profs.iter().all(|p| match check(run, *p, s, l) {
            Ok(()) => true,
            Err(v) => {
                run.violate(v);
                false
            }
        }));
    }
    battery(run, "block_representatives", &block_representative_strings(), &|s, l| profs.iter().all(|p| match check(run, *p, s, l) {
        Ok(()) => true,
        Err(v) => {
            run.violate(v);
            false
        }
    }));
    huge_section(run, false, &profs, &|p, s, l| check(run, p, s, l));
    concurrent_distinct(run, &profs, &concurrent_unit, &|p, s, l| check(run, p, s, l));
    pointer_offset_sweep(run, &["\u{ff21}", "A", "e\u{301}", "\u{3a3}", "\u{130}", "\u{ff76}\u{ff9e}", "\u{3000}", "l\u{b7}l", "\u{200d}", "\u{5d0}1"], &|s, l| {
        for p in profs {
            check(run, p, s, l)?;
        }
        Ok(())
    });
    battery(run, "respelled_middle_dot", &respelled_middle_dot_strings(), &|s, l| profs.iter().all(|p| match check(run, *p, s, l) {
        Ok(()) => true,
        Err(v) => {
            run.violate(v);
            false
        }
    }));
    collisions(run, "fingerprint_collisions", &|s, l| profs.iter().all(|p| match check(run, *p, s, l) {
        Ok(()) => true,
        Err(v) => {
            run.violate(v);
            false
        }
    }));
    stress(run, "alignment_and_runs", &PAYLOADS_USER, &|s, l| {
        for p in profs {
            if check(run, p, s, l).is_err() {
                shrink_report(run, p, Op::Enforce, s);
                return false;
            }
        }
        true
    });
    run.prop("random", run.pick(3_000_000, 60_000_000), || (username_strings(), 0..2usize), |(s, pi), l| check(run, profs[*pi], s, l));
}

pub fn replay(run: &Run, case: &Value) -> Check {
    let p = Prof::from_name(case["profile"].as_str().unwrap()).expect("profile");
    let s = super::pipe::replay_input(case);
    check(run, p, &s, &mut Local::default())
}
