//! One module per property.  Each exposes `run(&Run)` and `replay(&Run, &Value) -> Check`.
use crate::engine::{Check, Run};
use serde_json::Value;

pub mod pipe;
pub mod envchild;
pub mod c01;
pub mod c02;
pub mod c03;
pub mod c04;
pub mod c05;
pub mod c06;
pub mod c07;
pub mod c08;
pub mod c09;
pub mod c10;
pub mod c11;
pub mod c12;
pub mod c13;
pub mod c14;
pub mod c15;
pub mod c16;
pub mod c17;
pub mod c18;

pub fn run(id: &str, run: &Run) {
    match id {
        "C01" => c01::run(run),
        "C02" => c02::run(run),
        "C03" => c03::run(run),
        "C04" => c04::run(run),
        "C05" => c05::run(run),
        "C06" => c06::run(run),
        "C07" => c07::run(run),
        "C08" => c08::run(run),
        "C09" => c09::run(run),
        "C10" => c10::run(run),
        "C11" => c11::run(run),
        "C12" => c12::run(run),
        "C15" => c15::run(run),
        "C16" => c16::run(run),
        "C17" => c17::run(run),
        "C18" => c18::run(run),
        "C14" => c14::run(run),
        "C13" => c13::run(run),
        _ => {
            eprintln!("INFRA: unknown property {id}");
            std::process::exit(2)
        }
    }
}

pub fn replay(id: &str, run: &Run, case: &Value) -> Check {
    match id {
        "C01" => c01::replay(run, case),
        "C02" => c02::replay(run, case),
        "C03" => c03::replay(run, case),
        "C04" => c04::replay(run, case),
        "C05" => c05::replay(run, case),
        "C06" => c06::replay(run, case),
        "C07" => c07::replay(run, case),
        "C08" => c08::replay(run, case),
        "C09" => c09::replay(run, case),
        "C10" => c10::replay(run, case),
        "C11" => c11::replay(run, case),
        "C12" => c12::replay(run, case),
        "C15" => c15::replay(run, case),
        "C16" => c16::replay(run, case),
        "C17" => c17::replay(run, case),
        "C18" => c18::replay(run, case),
        "C14" => c14::replay(run, case),
        "C13" => c13::replay(run, case),
        _ => {
            eprintln!("INFRA: unknown property {id}");
            std::process::exit(2)
        }
    }
}

pub fn child(args: &[String]) -> i32 {
    match args.first().map(|s| s.as_str()) {
        Some("env-battery") => envchild::child(),
        Some("c16-race") => c16::race_child(args.get(1).and_then(|s| s.parse().ok()).unwrap_or(1)),
        _ => 2,
    }
}
