//! One module per property.  Each exposes `run(&Run)` and `replay(&Run, &Value) -> Check`.
use crate::engine::{Check, Run};
use serde_json::Value;

pub mod c12;

pub fn run(id: &str, run: &Run) {
    match id {
        "C12" => c12::run(run),
        _ => {
            eprintln!("INFRA: unknown property {id}");
            std::process::exit(2)
        }
    }
}

pub fn replay(id: &str, run: &Run, case: &Value) -> Check {
    match id {
        "C12" => c12::replay(run, case),
        _ => {
            eprintln!("INFRA: unknown property {id}");
            std::process::exit(2)
        }
    }
}

pub fn child(_args: &[String]) -> i32 {
    2
}
