//! C18 — Codepoints entries compare consistently with code points
use crate::engine::*;
use precis_core::Codepoints;
use proptest::collection::vec;
use proptest::prelude::*;
use serde_json::{json, Value};
use std::cmp::Ordering;

#[derive(Clone, Copy, Debug, PartialEq, Eq, Hash)]
pub struct Entry {
    pub range: bool,
    pub a: u32,
    pub b: u32,
}
impl Entry {
    fn mk(&self) -> Codepoints {
        if self.range { Codepoints::Range(self.a..=self.b) } else { Codepoints::Single(self.a) }
    }
    fn json(&self) -> Value {
        json!({"range": self.range, "start": self.a, "end": self.b})
    }
}

pub fn check_pair(e: Entry, x: u32, l: &mut Local) -> Check {
    let c = e.mk();
    let (a, b) = if e.range { (e.a, e.b) } else { (e.a, e.a) };
    let less = b < x;
    let greater = a > x;
    let equal = a <= x && x <= b;
    let want = if less { Ordering::Less } else if greater { Ordering::Greater } else { Ordering::Equal };
    l.evals_n(14);
    let obs: [(&str, bool, bool); 12] = [
        ("entry < cp", c < x, less),
        ("entry > cp", c > x, greater),
        ("entry <= cp", c <= x, less || equal),
        ("entry >= cp", c >= x, greater || equal),
        ("entry == cp", c == x, equal),
        ("entry != cp", c != x, !equal),
        ("cp < entry", x < c, greater),
        ("cp > entry", x > c, less),
        ("cp <= entry", x <= c, greater || equal),
        ("cp >= entry", x >= c, less || equal),
        ("cp == entry", x == c, equal),
        ("cp != entry", x != c, !equal),
    ];
    let case = || json!({"op": "compare", "entry": e.json(), "cp": x});
    for (name, got, exp) in obs {
        if got != exp {
            return Err(Violation::new(case(), format!("{name} = {exp}"), format!("{name} = {got}")));
        }
    }
    let pc = c.partial_cmp(&x);
    if pc != Some(want) {
        return Err(Violation::new(case(), format!("entry.partial_cmp(cp) = Some({want:?})"), format!("{pc:?}")));
    }
    let pm = x.partial_cmp(&c);
    if pm != Some(want.reverse()) {
        return Err(Violation::new(case(), format!("cp.partial_cmp(entry) = Some({:?})", want.reverse()), format!("{pm:?}")));
    }
    let boundary = |p: u32| x == p || x.wrapping_add(1) == p || x.wrapping_sub(1) == p;
    if boundary(a) || boundary(b) || x == 0 || x == u32::MAX || a == 0 || b == u32::MAX {
        l.nt(hash64(&(e, x)));
        if l.want_sample() {
            l.sample(json!({"entry": e.json(), "cp": x, "ordering": format!("{want:?}")}));
        }
    }
    Ok(())
}

/// ONE comparison (operator `kind` 0..14) of entry and code point against the mathematical definition
pub fn single_op(kind: u8, e: Entry, x: u32) -> Result<(), (String, String)> {
    let c = e.mk();
    let (a, b) = if e.range { (e.a, e.b) } else { (e.a, e.a) };
    let (less, greater) = (b < x, a > x);
    let equal = !less && !greater;
    let want = if less { Ordering::Less } else if greater { Ordering::Greater } else { Ordering::Equal };
    let (name, got, exp): (&str, String, String) = match kind % 14 {
        0 => ("entry < cp", (c < x).to_string(), less.to_string()),
        1 => ("entry > cp", (c > x).to_string(), greater.to_string()),
        2 => ("entry <= cp", (c <= x).to_string(), (less || equal).to_string()),
        3 => ("entry >= cp", (c >= x).to_string(), (greater || equal).to_string()),
        4 => ("entry == cp", (c == x).to_string(), equal.to_string()),
        5 => ("entry != cp", (c != x).to_string(), (!equal).to_string()),
        6 => ("cp < entry", (x < c).to_string(), greater.to_string()),
        7 => ("cp > entry", (x > c).to_string(), less.to_string()),
        8 => ("cp <= entry", (x <= c).to_string(), (greater || equal).to_string()),
        9 => ("cp >= entry", (x >= c).to_string(), (less || equal).to_string()),
        10 => ("cp == entry", (x == c).to_string(), equal.to_string()),
        11 => ("cp != entry", (x != c).to_string(), (!equal).to_string()),
        12 => ("entry.partial_cmp(cp)", format!("{:?}", c.partial_cmp(&x)), format!("{:?}", Some(want))),
        _ => ("cp.partial_cmp(entry)", format!("{:?}", x.partial_cmp(&c)), format!("{:?}", Some(want.reverse()))),
    };
    if got != exp {
        return Err((format!("{name} = {exp}"), format!("{name} = {got}")));
    }
    Ok(())
}

/// a history of single comparisons on one thread: (operator, entry, cp, how many times in a row); every answer is checked
pub fn check_history(steps: &[(u8, Entry, u32, u16)], l: &mut Local) -> Check {
    for (i, (kind, e, x, times)) in steps.iter().enumerate() {
        for t in 0..*times {
            l.eval();
            if let Err((exp, obs)) = single_op(*kind, *e, *x) {
                return Err(Violation::new(
                    json!({"op": "compare_history", "steps": steps[..=i].iter().map(|(k, e, x, n)| json!([k, e.json(), x, n])).collect::<Vec<_>>(), "failing_step": i, "failing_repeat": t}),
                    format!("{exp} (whatever was compared before)"),
                    obs,
                ));
            }
        }
    }
    if steps.len() >= 2 {
        l.nt(hash64(&steps));
    }
    Ok(())
}

/// table = sorted disjoint entries built from (gap, len, as_range) triples; probe code points
pub fn check_table(spec: &[(u32, u32, bool)], base: u32, l: &mut Local) -> Check {
    let mut entries: Vec<Entry> = Vec::new();
    let mut pos = base as u64;
    for (gap, len, as_range) in spec {
        let a = pos + *gap as u64;
        let b = a + *len as u64;
        if b > u32::MAX as u64 {
            break;
        }
        entries.push(Entry { range: *as_range || *len > 0, a: a as u32, b: b as u32 });
        pos = b + 1;
    }
    let table: Vec<Codepoints> = entries.iter().map(|e| e.mk()).collect();
    let mut probes: Vec<u32> = vec![0, u32::MAX, base];
    for e in &entries {
        for p in [e.a.wrapping_sub(1), e.a, e.a.wrapping_add(1), e.b.wrapping_sub(1), e.b, e.b.wrapping_add(1), e.a / 2 + e.b / 2] {
            probes.push(p);
        }
    }
    for x in probes {
        l.eval();
        let lin = entries.iter().position(|e| e.a <= x && x <= e.b);
        let bs = table.binary_search_by(|c| c.partial_cmp(&x).unwrap()).ok();
        if lin != bs {
            return Err(Violation::new(
                json!({"op": "table_search", "base": base, "spec": spec.iter().map(|(g, n, r)| json!([g, n, r])).collect::<Vec<_>>(), "cp": x}),
                format!("binary search finds index {lin:?} (linear scan)"),
                format!("{bs:?}"),
            ));
        }
    }
    if entries.len() >= 2 {
        l.nt(hash64(&(spec, base)));
    }
    Ok(())
}

fn window(run: &Run, name: &str, base: u64) {
    // every entry with base <= a <= b <= base+32 (clamped to u32) and every cp in base-1..=base+34
    run.par(name, true, |tid, n, l| {
        let lo = base;
        let hi = (base + 32).min(u32::MAX as u64);
        let mut idx = 0usize;
        for a in lo..=hi {
            for b in a..=hi {
                for range in [false, true] {
                    if !range && a != b {
                        continue;
                    }
                    idx += 1;
                    if idx % n != tid {
                        continue;
                    }
                    let e = Entry { range, a: a as u32, b: b as u32 };
                    let xlo = lo.saturating_sub(2);
                    let xhi = (hi + 2).min(u32::MAX as u64);
                    for x in xlo..=xhi {
                        l.cases += 1;
                        if let Err(v) = check_pair(e, x as u32, l) {
                            run.violate(v);
                            return;
                        }
                    }
                }
            }
        }
    });
}

pub fn run(run: &Run) {
    run.set_rule(
        "Generator: (a) exhaustive windows: every entry Single(c) / Range(a..=b) with base <= a <= b <= base+32 against every code point in \
         base-2..=base+34, for base = 0, 0x10FFEF (around U+10FFFF), u32::MAX-32 (top of the range), around U+D800, U+DFFF, U+FFFF/U+10000, 2^29 and 2^31; (a2) all ranges whose ends are (plane p1, low bits) .. (plane p2, low bits) for planes 0..17 and 7 low-bit patterns against code points in every plane \
         from p1-1 to p2+1 with matching / boundary low bits (block-aligned ranges, interior blocks); (b) proptest (entry, cp) pairs over all \
         u32 with cp biased to start/end +-1; (c) proptest sorted disjoint tables (1..40 entries) probed at every boundary +-1. Oracle: the \
         mathematical definition (Less <=> end < cp, Greater <=> start > cp, Equal <=> contained) for partial_cmp, <,<=,>,>=,==,!= in both \
         operand orders; binary_search_by(partial_cmp) == linear scan. Non-trivial: cp within +-1 of start or end, or an extreme value; \
         distinct = distinct (entry, cp) / distinct table.",
    );
    window(run, "window_0", 0);
    window(run, "window_10FFFF", 0x10ffef);
    window(run, "window_u32max", u32::MAX as u64 - 32);
    window(run, "window_surrogates_start", 0xd7f0);
    window(run, "window_surrogates_end", 0xdfe8);
    window(run, "window_bmp_end", 0xffe8);
    window(run, "window_i32max", 0x7fff_ffe8);
    window(run, "window_2pow29", 0x1fff_ffe8);
    // entries and code points built from (plane, low 16 bits): same low bits in start/end/cp, block-aligned ranges, interior blocks
    run.par("plane_structured", true, |tid, n, l| {
        let lows = [0u32, 1, 5, 0x7fff, 0x8000, 0xfffe, 0xffff];
        let mut idx = 0usize;
        for p1 in 0u32..=17 {
            for p2 in p1..=17 {
                for lo1 in lows {
                    for lo2 in [lo1, 0xffff, 0, lo1.wrapping_add(1) & 0xffff] {
                        idx += 1;
                        if idx % n != tid {
                            continue;
                        }
                        let (a, b) = ((p1 << 16) | lo1, (p2 << 16) | lo2);
                        if a > b {
                            continue;
                        }
                        let e = Entry { range: true, a, b };
                        for pc in p1.saturating_sub(1)..=(p2 + 1).min(18) {
                            for lo3 in [lo1, lo2, 0, 0xffff, lo1.wrapping_sub(1) & 0xffff, lo1.wrapping_add(1) & 0xffff] {
                                l.cases += 1;
                                if let Err(v) = check_pair(e, (pc << 16) | lo3, l) {
                                    run.violate(v);
                                    return;
                                }
                            }
                        }
                    }
                }
            }
        }
    });
    // histories: n identical-operator comparisons that involve one range (the code point fixed or sweeping through the range), then every
    // operator on every (entry, cp) of a family of related ranges (same start / same end / nested / adjacent), each probe after a fresh priming
    run.par("primed_histories", true, |tid, n, l| {
        let fams: [[u32; 4]; 3] = [[0x600, 0x605, 0x628, 0x6ff], [0, 0x7f, 0x80, 0x10ffff], [0x10ffff, 0x110000, u32::MAX - 1, u32::MAX]];
        let mut idx = 0usize;
        for fam in fams {
            let mut entries: Vec<Entry> = Vec::new();
            for i in 0..4 {
                entries.push(Entry { range: false, a: fam[i], b: fam[i] });
                for j in i..4 {
                    entries.push(Entry { range: true, a: fam[i], b: fam[j] });
                }
            }
            let mut cps: Vec<u32> = Vec::new();
            for b in fam {
                cps.extend([b.wrapping_sub(1), b, b.wrapping_add(1)]);
            }
            cps.push(fam[1] / 2 + fam[2] / 2);
            cps.sort();
            cps.dedup();
            for prime_kind in 0..14u8 {
                for count in [1u16, 2, 7, 8, 9, 15, 16, 17, 31, 32, 33, 43, 63, 64, 65, 100, 127, 128, 129, 255, 256, 257] {
                    for sweep in [false, true] {
                        idx += 1;
                        if idx % n != tid {
                            continue;
                        }
                        if run.stopped() {
                            return;
                        }
                        // the priming range: the widest one of the family; its code points: the middle, or a sweep inside it
                        let e1 = Entry { range: true, a: fam[0], b: fam[3] };
                        let span = (fam[3] - fam[0]).max(1);
                        let prime = |l: &mut Local| -> Check {
                            for t in 0..count as u32 {
                                let c1 = if sweep { fam[0] + (span / 3).saturating_add(t) % span } else { fam[2] };
                                l.eval();
                                if let Err((exp, obs)) = single_op(prime_kind, e1, c1) {
                                    return Err(Violation::new(json!({"op": "compare_history", "steps": [[prime_kind, e1.json(), c1, t + 1]], "failing_step": 0, "failing_repeat": t}), exp, obs));
                                }
                            }
                            Ok(())
                        };
                        for e2 in &entries {
                            for c2 in &cps {
                                for k2 in 0..14u8 {
                                    l.cases += 1;
                                    if let Err(v) = prime(l) {
                                        run.violate(v);
                                        return;
                                    }
                                    l.eval();
                                    if let Err((exp, obs)) = single_op(k2, *e2, *c2) {
                                        let c1 = if sweep { fam[0] + span / 3 } else { fam[2] };
                                        run.violate(Violation::new(
                                            json!({"op": "compare_history", "steps": [[prime_kind, e1.json(), c1, count], [k2, e2.json(), c2, 1]], "sweeping_cp": sweep, "failing_step": 1, "failing_repeat": 0,
                                                   "note": "step 0 with sweeping_cp=true uses cp, cp+1, ... (wrapping inside the range) instead of one fixed cp"}),
                                            format!("{exp} (whatever was compared before)"),
                                            obs,
                                        ));
                                        return;
                                    }
                                }
                            }
                        }
                    }
                }
            }
        }
    });
    // proptest histories over a family of ranges built from 4 generated boundaries
    let mk_hist = || {
        let bound = prop_oneof![3 => 0u32..0x3000, 2 => any::<u32>(), 1 => 0x10fff0u32..0x110010, 1 => (u32::MAX - 8)..=u32::MAX];
        (vec(bound, 4), vec((0u8..14, 0usize..14, 0usize..13, prop_oneof![6 => Just(1u16), 2 => 2u16..6, 2 => 30u16..36, 1 => 60u16..70, 1 => 120u16..260]), 2..14)).prop_map(|(mut b, steps)| {
            b.sort();
            let mut entries: Vec<Entry> = Vec::new();
            for i in 0..4 {
                entries.push(Entry { range: false, a: b[i], b: b[i] });
                for j in i..4 {
                    entries.push(Entry { range: true, a: b[i], b: b[j] });
                }
            }
            let mut cps: Vec<u32> = Vec::new();
            for x in &b {
                cps.extend([x.wrapping_sub(1), *x, x.wrapping_add(1)]);
            }
            cps.push(b[1] / 2 + b[2] / 2);
            steps.into_iter().map(|(k, ei, ci, n)| (k, entries[ei % entries.len()], cps[ci % cps.len()], n)).collect::<Vec<_>>()
        })
    };
    run.prop("random_histories", run.pick(300_000, 10_000_000), mk_hist, |steps, l| check_history(steps, l));
    let mk_pairs = || {
        let special = prop_oneof![4 => any::<u32>(), 1 => 0xd7f0u32..0xe010, 1 => 0xfff0u32..0x10010, 1 => 0x10fff0u32..0x110010, 1 => 0u32..0x3000, 1 => (u32::MAX - 64)..=u32::MAX];
        (any::<bool>(), special.clone(), special, 0u8..8, -2i64..=2).prop_map(|(range, p, q, mode, delta)| {
            let (a, b) = if p <= q { (p, q) } else { (q, p) };
            let e = Entry { range, a, b: if range { b } else { a } };
            let x = match mode {
                0 | 1 => (e.a as i64 + delta).clamp(0, u32::MAX as i64) as u32,
                2 | 3 => (e.b as i64 + delta).clamp(0, u32::MAX as i64) as u32,
                4 => e.a / 2 + e.b / 2,
                _ => q ^ p.rotate_left(7),
            };
            (e, x)
        })
    };
    run.prop("random_pairs", run.pick(2_000_000, 100_000_000), mk_pairs, |(e, x), l| check_pair(*e, *x, l));
    let mk_tables = || {
        (
            vec((prop_oneof![3 => 0u32..4, 1 => 0u32..100_000], prop_oneof![2 => Just(0u32), 2 => 1u32..5, 1 => 1u32..70_000], any::<bool>()), 1..40),
            prop_oneof![3 => Just(0u32), 1 => 0u32..0x110000, 1 => (u32::MAX - 3_000_000)..=u32::MAX],
        )
    };
    run.prop("random_tables", run.pick(100_000, 3_000_000), mk_tables, |(spec, base), l| check_table(spec, *base, l));
}

pub fn replay(_run: &Run, case: &Value) -> Check {
    let mut l = Local::default();
    match case.get("op").and_then(|o| o.as_str()) {
        Some("compare") => {
            let e = &case["entry"];
            let en = Entry { range: e["range"].as_bool().unwrap(), a: e["start"].as_u64().unwrap() as u32, b: e["end"].as_u64().unwrap() as u32 };
            check_pair(en, case["cp"].as_u64().unwrap() as u32, &mut l)
        }
        Some("compare_history") => {
            let sweep = case.get("sweeping_cp").and_then(|b| b.as_bool()).unwrap_or(false);
            let mut steps: Vec<(u8, Entry, u32, u16)> = Vec::new();
            for (i, s) in case["steps"].as_array().unwrap().iter().enumerate() {
                let e = &s[1];
                let en = Entry { range: e["range"].as_bool().unwrap(), a: e["start"].as_u64().unwrap() as u32, b: e["end"].as_u64().unwrap() as u32 };
                let (k, x, n) = (s[0].as_u64().unwrap() as u8, s[2].as_u64().unwrap() as u32, s[3].as_u64().unwrap() as u16);
                if sweep && i == 0 {
                    let span = (en.b - en.a).max(1);
                    for t in 0..n as u32 {
                        steps.push((k, en, en.a + (x - en.a).saturating_add(t) % span, 1));
                    }
                } else {
                    steps.push((k, en, x, n));
                }
            }
            check_history(&steps, &mut l)
        }
        Some("table_search") => {
            let spec: Vec<(u32, u32, bool)> = case["spec"]
                .as_array()
                .unwrap()
                .iter()
                .map(|t| (t[0].as_u64().unwrap() as u32, t[1].as_u64().unwrap() as u32, t[2].as_bool().unwrap()))
                .collect();
            // the probe set is derived from the table; re-check the whole table
            check_table(&spec, case["base"].as_u64().unwrap() as u32, &mut l)
        }
        _ => panic!("unknown C18 case"),
    }
}
