#!/usr/bin/env python3
"""Copies confirmed seeded changes from /tmp/seedwork into /verif/seeded/<id>-<n>/ and prints the catch matrix."""
import json, os, shutil, glob, re
import sys
S='/tmp/seedwork'; D='/verif/seeded'
ROUND=sys.argv[1] if len(sys.argv)>1 else '1'
RES={'1':'results','2':'results2','3':'results3','4':'results4f','5':'results5f','6':'results6'}[ROUND]
OUTP={'1':'out-','2':'out2-','3':'out3-','4':'out4-','5':'out5-','6':'out6-'}[ROUND]
PFX={'1':'','2':'r2-','3':'r3-','4':'r4-','5':'r5-','6':'r6-'}[ROUND]
EXTRA=json.load(open(f'{S}/extra{ROUND}.json')) if os.path.exists(f'{S}/extra{ROUND}.json') else {}
rows=[]
for rf in sorted(glob.glob(f'{S}/{RES}/C*-*.json')):
    r=json.load(open(rf))
    sid=r['seed']; pid,n=sid.split('-')
    out=f'{S}/{OUTP}{pid}'
    if not r.get('confirmed'):
        rows.append((sid,'not confirmed (dropped)','','')); continue
    dst=f'{D}/{PFX}{sid}'; os.makedirs(dst,exist_ok=True)
    shutil.copy(f'{out}/patch{n}.diff',f'{dst}/patch.diff')
    shutil.copy(f'{out}/demo{n}.rs',f'{dst}/demo.rs')
    try: meta=json.load(open(f'{out}/meta{n}.json'))
    except Exception as e: meta={'property':pid,'summary':'(meta file of the sub-agent did not parse)'}
    logdir={'4':'results4-baseline','5':'results5'}.get(ROUND,RES)
    log=open(f'{S}/{logdir}/{sid}.log',errors='replace').read() if os.path.exists(f'{S}/{logdir}/{sid}.log') else ''
    conf=[l for l in log.splitlines() if l.startswith(('suite with patch','demo with patch','demo without patch','SEED-'))]
    prev=json.load(open(f'{dst}/meta.json')) if os.path.exists(f'{dst}/meta.json') else {}
    caught=sorted((set() if ROUND=='3' else set(r.get('caught_by',[])))|set(prev.get('checks_run',{}).get('caught_by',[]))|set(EXTRA.get(sid,{}).get('caught_by',[])))
    missed=sorted(set(r.get('not_caught_by',[]))-set(caught)) if ROUND!='3' else []
    meta_out={
      'property':pid,'seed':sid,
      'breaks':meta.get('summary'),'needs_to_manifest':meta.get('needs'),'witness':meta.get('witness'),
      'sub_agent_verification':meta.get('verified'),
      'my_confirmation':{'how':'tools/verify_seed.sh in the scratch worktree: full suite with the patch, demo with the patch, demo without the patch','output':conf},
      'checks_run':{'how':'quick tier of the listed checks against a scratch copy with the patch applied (tools/seed_eval.sh); spot-checked on /repo itself with tools/run_seed.sh','caught_by':caught,'not_caught_by':missed},
      'extra':EXTRA.get(sid,prev.get('extra',{})),
      **({'baseline_before_strengthening':json.load(open(f'{S}/'+{'4':'results4-baseline','5':'results5'}[ROUND]+f'/{sid}.json')).get('caught_by',[])} if ROUND in ('4','5') else {}),
    }
    json.dump(meta_out,open(f'{dst}/meta.json','w'),indent=1)
    rows.append((PFX+sid,(meta.get('summary') or '')[:110],' '.join(caught),' '.join(missed)))
print('| seed | change | caught by (quick) | run but silent |\n|---|---|---|---|')
for r in rows: print('| '+' | '.join(r)+' |')
