#!/bin/bash
# run_seed.sh <patch.diff> <tier> <id>...   apply a seeded change to /repo, run the listed checks, undo the change.
# prints one line per check: <id> CAUGHT|missed|infra  (and the violation summary)
set -u
P="$1"; TIER="$2"; shift 2
cd /repo || exit 2
[ -n "$(git status --porcelain --untracked-files=no)" ] && { echo "/repo is dirty"; exit 2; }
git apply "$P" || exit 2
trap 'git -C /repo checkout -q -- . ; git -C /repo clean -fdq -e target' EXIT
for id in "$@"; do
  out=$(cd /verif && ./check "$id" "$TIER" 2>/dev/null); rc=$?
  if [ $rc -eq 1 ]; then echo "$id CAUGHT: $(echo "$out" | grep -E '^(expected|observed):' | head -2 | tr '\n' ' ' | cut -c1-400)";
  elif [ $rc -eq 0 ]; then echo "$id missed"; else echo "$id infra($rc)"; fi
done
