#!/usr/bin/env python3
"""Regenerates /verif/MANIFEST.json from the table below (kept in one place so it stays valid)."""
import json, os
V = os.path.dirname(os.path.dirname(os.path.abspath(__file__)))
props = [json.loads(l) for l in open(os.path.join(V, 'properties.jsonl'))]

# id -> (technique, level text, level note, design ref)
CHECKS = {
 "C12": ("small-scope exhaustive enumeration + proptest against a map/split/join reference model",
         "Exploration: every string up to length 7 (quick) / 8 (thorough) over an 8-character alphabet with one character of each UTF-8 length and four kinds of space, every Unicode scalar value inside four templates, all 17 Zs in all 4-slot placements, and millions of proptest strings, all compared with an independent model built on my own parse of UnicodeData 16.0.0, plus idempotence. Exhaustive inside the stated bounds, statistical beyond them.",
         "Trusts the pinned copy of UnicodeData 16.0.0 (SHA256 checked), proptest, and the model in harness/src/model.rs (ref_space_nick/ref_space_opaque).",
         "DESIGN.md 3/C12"),
}
PENDING = "check not built yet in this session (work in progress, see DESIGN.md section 7 for the order of work)"

checks = []
na = []
for p in props:
    i = p['id']
    if i in CHECKS:
        tech, text, note, ref = CHECKS[i]
        checks.append({
            "property_id": i,
            "quick_cmd": f"./check {i} quick",
            "thorough_cmd": f"./check {i} thorough",
            "evidence_file": f"/verif/evidence/{i}.json",
            "replay_cmd_template": f"./check replay {i} {{path}}",
            "engine": "pv",
            "level_claimed": {"category": "exploration", "text": text, "design_ref": ref},
            "level_note": note,
            "technique": tech,
        })
    else:
        na.append({"property_id": i, "reason": PENDING})

m = {
 "version": 1,
 "setup_cmd": "./setup.sh",
 "hooks": {
   "guard": "sancane_precis_verif",
   "enable": "none needed: every behaviour the checks observe is reachable through the public Rules/Profile/StringClass/context/precis-tools APIs; the harness path-depends on /repo/precis-{core,profiles,tools} and rebuilds them from the working tree (RUSTFLAGS='--cfg sancane_precis_verif' would be the guard, it is unused)",
   "baseline_off_cmd": "cd /repo && cargo test --workspace --no-fail-fast --offline",
   "source_commits": [],
   "add_only": True
 },
 "engines": [
   {"name": "pv", "path": "/verif/harness", "serves_properties": [c["property_id"] for c in checks],
    "kind_free_text": "Rust binary: parallel proptest TestRunners (fixed seeds from VERIF_SEED), small-scope exhaustive enumerators, independent UCD/RFC reference models (harness/src/ucd.rs, model.rs), shrinking to JSON replay files"},
 ],
 "checks": checks,
 "not_applicable": na,
 "notes": "All checks: ./check <id> <quick|thorough>; exit 0 held, 1 + VIOLATION line, 2 infrastructure trouble (build failure, watchdog). Known findings: /verif/known_findings.json. Regression inputs replayed first in every run: /verif/replays/regress/.",
}
json.dump(m, open(os.path.join(V, 'MANIFEST.json'), 'w'), indent=1)
print("checks:", len(checks), "not_applicable:", len(na))
