#!/usr/bin/env python3
"""Regenerates /verif/MANIFEST.json from the table below (kept in one place so it stays valid)."""
import json, os
V = os.path.dirname(os.path.dirname(os.path.abspath(__file__)))
props = [json.loads(l) for l in open(os.path.join(V, 'properties.jsonl'))]

# id -> (technique, level text, level note, design ref)
CHECKS = {
 "C01": ("small-scope exhaustive enumeration + proptest + numeric boundary sweep; validity predicate 'returns' under catch_unwind with overflow checks (libFuzzer target 'ops' in the thorough tier)",
         "Exploration: every string up to length 4 over a 24/40-character alphabet holding 1-4-byte characters of every role the code branches on, ~83 000 long-input stress strings (alignment sweeps, runs, sandwiches, 70-140 KB inputs), all pairs of cased characters, hundreds of thousands to millions of random strings (one in six padded to 7..257 characters), all surrogates / out-of-range code points and extreme offsets, each pushed through every public operation (~170 calls per string).",
         "A panic is observed through catch_unwind; a hard crash of the process is isolated by a single-threaded re-run with a breadcrumb file (see ./check).",
         "DESIGN.md 3/C01"),
 "C02": ("proptest + small-scope enumeration against a reference scan (first offender, code-point positions, RFC 5892 reference rules); generated user classes",
         "Exploration: all labels up to length 3/4 over a 30-character alphabet, ZWNJ between transparent runs of every length 0..40, alignment sweeps and runs of the contextual patterns (positions up to 4100), millions of proptest labels (one in six padded) for both standard classes and generated user-supplied classes (random assignments of the 7 derived-property values), compared with a reference scan that yields the set of allowed results.",
         "Classification is the class's own get_value_from_char (C14 decides that); context truth comes from my RFC 5892 reference rules over the pinned UCD 6.3.0 data.",
         "DESIGN.md 3/C02"),
 "C03": ("exhaustive per-role sweep of all 1,114,112 code points + arrangement enumeration + proptest, against RFC 5892 App. A reference rules returning allowed-answer sets",
         "Exploration, exhaustive in the stated sub-domains: every scalar value as the inspected neighbour of each rule role (18 templates x all 8 rule functions), every arrangement of joining classes up to length 6/7 at every position, transparent runs up to 40 on both sides of ZWNJ, contextual patterns behind prefixes of 15..4097 characters and at every alignment 0..72, registry sweep over all code points; random labels/positions beyond.",
         "Trusts my parse of UnicodeData/Scripts/DerivedJoiningType 6.3.0 (pinned copies) and my reading of RFC 5892 App. A; 'undefined' is accepted in place of 'false' only at label edges.",
         "DESIGN.md 3/C03"),
 "C04": ("proptest with valid-biased generators against an independent pipeline model (own width table, reference IdentifierClass scan, std lowercase, ICU4X NFC, RFC 5893 rule)",
         "Exploration: all strings up to length 4/5 over a 32-character alphabet in which every step has work to do, long-input batteries (alignment sweeps 0..72, combining-mark runs to 70, sandwiches, block-boundary sweeps to 4100 bytes, 70-140 KB inputs, ZWNJ runs, all composing pairs, hash-colliding pairs back to back) and millions of generated usernames (40% accepted, >10% with two or more interacting steps, one in six padded/respelled) through prepare and enforce of both username profiles, compared with a fully independent model giving the set of allowed results; enforce error == prepare error.",
         "Trusts ICU4X NFC, std char::to_lowercase, pinned UnicodeData 16.0.0/6.3.0; K1 (interior NSM) excused by exact signature only.",
         "DESIGN.md 3/C04"),
 "C05": ("proptest against an independent model + metamorphic checks (no non-ASCII Zs, NFC, byte-for-byte identity)",
         "Exploration: millions of generated passwords with every Zs in every placement, composing sequences and compatibility characters, compared with the RFC 8265 4.2 model; metamorphic side conditions on every accepted result.",
         "Trusts ICU4X NFC and the pinned UnicodeData 16.0.0 (Zs set) / 6.3.0 (FreeformClass reference).",
         "DESIGN.md 3/C05"),
 "C06": ("proptest + exhaustive pair enumeration of NFKC-space-producing characters against a reference fixed-point model (reference stabilize of the RFC 8266 round)",
         "Exploration: generated nicknames rich in spaces and characters whose NFKC introduces spaces (hundreds of thousands need 2 or 3 applications), compared with reference stabilize over the model round; every accepted result is re-checked to be a fixed point in the model and under the implementation's own rules.",
         "Trusts ICU4X NFKC, pinned UCD data; no natural input needing a 4th application is known, that branch is covered by C13.",
         "DESIGN.md 3/C06"),
 "C07": ("proptest pairs/triples built from equivalence-flavoured rewrites, against model comparison forms, differential (enforce-based) and algebraic laws",
         "Exploration: generated pairs (a, variant(a)), (v1(a), v2(a)), independent and invalid pairs for all four profiles against the model compare; static entry point agreement; compare == enforce-equality for username/password profiles; reflexive/symmetric/transitive/strict-error laws on triples.",
         "Same trusted base as C04-C06; K1 excused by exact signature only.",
         "DESIGN.md 3/C07"),
 "C08": ("exhaustive single-code-point sweep (3 templates x 4 profiles) + proptest; validity predicate over the output and re-enforce invariant",
         "Exploration, exhaustive over every scalar value as a one-character / interior / pre-combining input for all four profiles, plus generated strings: no DISALLOWED/UNASSIGNED code point in any enforced result (reference recomputation and the class's own answer), enforce(enforce(s)) never a different string.",
         "Trusts my RFC 8264 recomputation over UCD 6.3.0 (cross-checked against the IANA registry by C14); K2 (Cherokee) excused by exact signature only.",
         "DESIGN.md 3/C08"),
 "C09": ("small-scope exhaustive enumeration of bidi class sequences + per-code-point battery over all assigned code points + proptest, against the six RFC 5893 conditions",
         "Exploration, exhaustive in the stated sub-domains: all sequences of the 23 classes up to length 5/6 and of the 7 rule-relevant groups up to length 8/10 with proptest-drawn representatives, every code point assigned in 16.0.0 in six separating templates, random strings.",
         "Trusts my parse of UnicodeData 16.0.0 field 4 and my reading of RFC 5893 section 2; K1 (interior NSM) excused by exact signature only.",
         "DESIGN.md 3/C09"),
 "C10": ("exhaustive sweep of all scalar values in 7 contexts + proptest, against per-character char::to_lowercase",
         "Exploration, exhaustive over every scalar value before/after uncased, uppercase, titlecase and 4-byte neighbours on both case-mapping profiles; random case-heavy strings beyond.",
         "Trusts std's char::to_lowercase (same std as the library).",
         "DESIGN.md 3/C10"),
 "C11": ("exhaustive sweep of all scalar values in 8 contexts + proptest, against a per-character map parsed from UnicodeData 16.0.0; idempotence",
         "Exploration, exhaustive over every scalar value alone, after unmapped prefixes of 1-4 bytes and next to mapped characters, on both username profiles; random strings beyond.",
         "Trusts the pinned UnicodeData 16.0.0.",
         "DESIGN.md 3/C11"),
 "C12": ("small-scope exhaustive enumeration + proptest against a map/split/join reference model",
         "Exploration: every string up to length 7 (quick) / 8 (thorough) over an 8-character alphabet with one character of each UTF-8 length and four kinds of space, every Unicode scalar value inside four templates, all 17 Zs in all 4-slot placements, and millions of proptest strings, all compared with an independent model built on my own parse of UnicodeData 16.0.0, plus idempotence. Exhaustive inside the stated bounds, statistical beyond them.",
         "Trusts the pinned copy of UnicodeData 16.0.0 (SHA256 checked), proptest, and the model in harness/src/model.rs (ref_space_nick/ref_space_opaque).",
         "DESIGN.md 3/C12"),
 "C13": ("exhaustive enumeration of all rule functions on k<=6/7 states (programs) + proptest programs, against reference stabilize with an instrumented closure",
         "Exploration, exhaustive over ALL functions f: S -> S+{Err1,Err2} for |S| <= 6 (quick) / 7 (thorough) from every start state; random programs with up to 12 states, three error kinds, diverging continuations, borrowed/owned results and all argument forms.",
         "The state space of rule functions is abstracted to finite tables plus one diverging continuation; strings are opaque to stabilize, so this abstraction loses nothing stabilize can observe except string equality.",
         "DESIGN.md 3/C13"),
 "C14": ("exhaustive sweep of all code points against two independent oracles (RFC 8264 section 8 recomputation over UCD 6.3.0 with ICU4X; IANA registry CSV)",
         "Exploration, exhaustive for 0..=0x10FFFF (both classes, both entry points, class relation) and sampled above; two independent oracles must both agree with the implementation.",
         "Trusts pinned UCD 6.3.0 files, the IANA CSV, ICU4X NFKC and my typing of the RFC 5892 2.6 exceptions.",
         "DESIGN.md 3/C14"),
 "C15": ("proptest-generated UCD directories (configurations) + variations of the pinned files + the pinned files, run through the real generators and read back; oracle = independent parse of the same inputs",
         "Exploration: thousands of synthetic UnicodeData/Scripts/JoiningType/PropList/CoreProperties/HangulSyllableType directories (single lines and First/Last pairs in every adjacency, all categories, all 23 bidi classes, wide/narrow/compat decompositions), variations of the pinned files, and the pinned files themselves; all 47 emitted tables are rebuilt as Vec<precis_core::Codepoints> and compared with my own parse at every input/entry boundary +-2 (complete for piecewise-constant tables) or at all 1,114,112 code points (pinned), including searchability and single-valuedness.",
         "Trusts my reader of the generators' rigid emitted syntax (declared length must equal the entry count), my UCD parsers, and that real UCD files never assign noncharacters / stay below U+10FFFE.",
         "DESIGN.md 3/C15"),
 "C16": ("differential proptest over API forms and argument forms, model-based call histories, and first-use races in re-executed child processes",
         "Exploration: every generated input through all API forms (fresh new/default, long-lived per thread, shared by 16 threads, static fast invocation) x argument forms while 16 threads run; histories of up to 40 calls compared step by step with fresh instances; dozens to a thousand child processes whose very first library calls race on a barrier. Schedules are sampled, not controlled.",
         "The harness does not own the scheduler: strong against leaked state (caches, thread-locals, differently configured statics), weak against a race that needs one specific interleaving.",
         "DESIGN.md 3/C16"),
 "C17": ("proptest structured rows and files (round trip against the generator's structured row, malformed rows by construction), differential against an independent CSV reader on the IANA file",
         "Exploration: millions of generated well-formed and malformed rows through PrecisDerivedProperty/DerivedProperties/DerivedProperty::from_str, tens of thousands of generated files through CsvLineParser::from_path (header skipped, file order, line numbers of errors, LF/CRLF, final newline), and the real registry file against my own reader.",
         "Does not assert either way on lower-case or sign-prefixed hex, over-long zero padding and reversed ranges (the code never claims them).",
         "DESIGN.md 3/C17"),
 "C18": ("exhaustive windows (bottom, U+10FFFF, u32::MAX) + proptest pairs and generated tables, against the mathematical definition",
         "Exploration, exhaustive over every entry and code point in three 33-wide windows including both ends of the u32 range; random pairs over all u32 and generated sorted tables for the binary-search claim.",
         "None beyond the Rust comparison operators being dispatched to the PartialOrd/PartialEq impls generated from the template.",
         "DESIGN.md 3/C18"),
}
PENDING = "check not built yet in this session (work in progress, see DESIGN.md section 7 for the order of work)"

checks = []
na = []
BATTERIES = " In addition, deterministic long-input / call-order batteries (DESIGN.md 8.1: alignment sweeps, runs and exact counts, sandwiches and multi-megabyte inputs, exhaustive pair sets, plane/byte aliases, hash-colliding pairs, owned arguments with spare capacity; DESIGN.md 8.2: extreme scale up to 64/128 MiB and 2^22 code points, default-stack threads, one mark of every combining class next to every mapped character, distinct runs with repeats, class permutations, child processes under other locales / environments, thread generations and teardown-time calls, 16 threads on distinct large inputs, comparison histories, generator configuration variants) run in the quick tier; DESIGN.md 8.3: argument views at every pointer offset, re-entrant calls, error value space, file media and non-UTF-8 lines, value relations; they were added after five rounds of adversarially seeded changes (DESIGN.md 9), whose hit rates before/after are reported there. DESIGN.md 8.4: in-range one-bit partner lookups on one thread (C14), compare-then-enforce on one thread (C06). The thorough tier additionally runs the whole quick tier on a second build of library and harness without overflow checks / debug assertions (DESIGN.md 8.4) before the libFuzzer stage and the deep exploration."
for p in props:
    i = p['id']
    if i in CHECKS:
        tech, text, note, ref = CHECKS[i]
        if i in ("C01","C02","C03","C04","C05","C06","C07","C08","C09","C10","C11","C12","C13","C14","C15","C16","C17","C18") and "DESIGN.md 8.1" not in text:
            text = text + BATTERIES
        checks.append({
            "property_id": i,
            "quick_cmd": f"./check {i} quick",
            "thorough_cmd": f"./check {i} thorough",
            "evidence_file": f"/verif/evidence/{i}.json",
            "replay_cmd_template": f"./check replay {i} {{path}}",
            "engine": "pv",
            "level_claimed": {"category": "exploration", "text": text, "design_ref": ref},
            "level_note": note,
            "technique": tech,
        })
    else:
        na.append({"property_id": i, "reason": PENDING})

m = {
 "version": 1,
 "setup_cmd": "./setup.sh",
 "hooks": {
   "guard": "sancane_precis_verif",
   "enable": "none needed: every behaviour the checks observe is reachable through the public Rules/Profile/StringClass/context/precis-tools APIs; the harness path-depends on /repo/precis-{core,profiles,tools} and rebuilds them from the working tree (RUSTFLAGS='--cfg sancane_precis_verif' would be the guard, it is unused)",
   "baseline_off_cmd": "cd /repo && cargo test --workspace --no-fail-fast --offline",
   "source_commits": [],
   "add_only": True
 },
 "engines": [
   {"name": "pv", "path": "/verif/harness", "serves_properties": [c["property_id"] for c in checks],
    "kind_free_text": "Rust binary: parallel proptest TestRunners (fixed seeds from VERIF_SEED), small-scope exhaustive enumerators, independent UCD/RFC reference models (harness/src/ucd.rs, model.rs), shrinking to JSON replay files"},
 ],
 "checks": checks,
 "not_applicable": na,
 "notes": "Sensitivity: 209 seeded changes in six rounds (36 + 18 ordinary ones written from the property text alone - the latter 18/18 caught by the check of their own property without strengthening -, 155 adversarial; see DESIGN.md 9 for what is and is not caught) kept under /verif/seeded with meta.json; 16 behaviour-preserving refactors x 18 checks raised no alarm. All checks: ./check <id> <quick|thorough>; exit 0 held, 1 + VIOLATION line, 2 infrastructure trouble (build failure, watchdog). Known findings: /verif/known_findings.json. Regression inputs replayed first in every run: /verif/replays/regress/.",
}
json.dump(m, open(os.path.join(V, 'MANIFEST.json'), 'w'), indent=1)
print("checks:", len(checks), "not_applicable:", len(na))
