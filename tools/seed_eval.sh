#!/bin/bash
# seed_eval.sh <Cxx> <n> [ids...]   (development helper, not registered in MANIFEST)
# 1. confirm the seeded change in the sub-agent's scratch worktree (verify_seed.sh)
# 2. apply it to the scratch copy /tmp/seedrepo, build a scratch copy of the harness against it and run the quick checks
#    with PV_VERIF=/tmp/seedverif (so /verif/evidence and /repo are not touched); write /tmp/seedwork/results/<Cxx>-<n>.json
set -u
ID="$1"; N="$2"; shift 2
IDS="${*:-C01 C02 C03 C04 C05 C06 C07 C08 C09 C10 C11 C12 C13 C14 C15 C16 C17 C18}"
OUT=${SEED_OUTPFX:-/tmp/seedwork/out-}$ID
RES=${SEED_RESDIR:-/tmp/seedwork/results}/$ID-$N.json
mkdir -p "$(dirname "$RES")"
export CARGO_NET_OFFLINE=true
SREPO=${SEED_REPO:-/tmp/seedrepo}
SHARN=${SEED_HARNESS:-/tmp/seedharness}
if [ -n "${SEED_SKIP_CONFIRM:-}" ]; then conf=SEED-CONFIRMED; else conf=$(/verif/tools/verify_seed.sh ${SEED_WTPFX:-/tmp/wt-}$ID "$OUT" "$N" 2>&1); fi
echo "$conf" | tail -4
echo "$conf" | grep -q SEED-CONFIRMED || { echo "{\"seed\":\"$ID-$N\",\"confirmed\":false}" > "$RES"; exit 1; }
# scratch harness
HSRC=${SEED_HSRC:-}; [ -z "$HSRC" ] && [ -f /tmp/seedwork/hsrc ] && HSRC=$(cat /tmp/seedwork/hsrc); HSRC=${HSRC:-/verif/harness}
rsync -a --delete --exclude target $HSRC/ $SHARN/
sed -i "s#/repo/#$SREPO/#g" $SHARN/Cargo.toml
cd $SREPO && git checkout -q -- . && git clean -fdq && git apply "$OUT/patch$N.diff" || exit 2
if git diff --name-only | grep -q 'resources/\|build.rs'; then (cd $SHARN && cargo clean --release -p precis-core -p precis-profiles >/dev/null 2>&1); touch $SHARN/.cleaned; fi
(cd $SHARN && cargo build --release 2>/tmp/seedwork/build.log) || { echo "harness build failed"; tail -5 /tmp/seedwork/build.log; cd $SREPO && git checkout -q -- .; exit 2; }
caught=""; missed=""; details=""
for id in $IDS; do
  out=$(PV_VERIF=/tmp/seedverif PV_DATA=/verif/data timeout 600 $SHARN/target/release/pv check $id --tier quick 2>/dev/null); rc=$?
  if [ $rc -eq 1 ] || { [ $id = C01 ] && [ $rc -ge 129 ]; }; then caught="$caught $id"; d=$(echo "$out" | grep -E '^(case|expected|observed):' | head -3 | tr '\n' ' ' | cut -c1-500); details="$details\n  $id: $d";
  elif [ $rc -eq 0 ]; then missed="$missed $id"; else missed="$missed $id(rc=$rc)"; fi
done
cd $SREPO && git checkout -q -- . && git clean -fdq
if [ -f $SHARN/.cleaned ]; then (cd $SHARN && cargo clean --release -p precis-core -p precis-profiles >/dev/null 2>&1); rm -f $SHARN/.cleaned; fi
python3 - "$ID" "$N" "$caught" "$missed" <<PY
import json,sys
json.dump({"seed":sys.argv[1]+"-"+sys.argv[2],"confirmed":True,"caught_by":sys.argv[3].split(),"not_caught_by":sys.argv[4].split()},open("$RES","w"))
PY
echo "$ID-$N caught_by:$caught"
echo -e "$details"
