#!/bin/bash
# verify_seed.sh <worktree> <outdir> <n>
# Confirms a seeded change independently, in the scratch worktree: suite green with the patch, demo fails with it, demo passes without it.
set -u
WT="$1"; OUT="$2"; N="$3"
cd "$WT" || exit 2
git checkout -q -- . && git clean -fdq -e target
demo_dst=$(head -1 "$OUT/demo$N.rs" | grep -o '[a-z-]*/tests/[A-Za-z0-9_]*\.rs' | head -1)
[ -z "$demo_dst" ] && { echo "cannot find demo destination in first line of demo$N.rs"; exit 2; }
crate=${demo_dst%%/*}; tname=$(basename "$demo_dst" .rs)
git apply --check "$OUT/patch$N.diff" || { echo "PATCH-DOES-NOT-APPLY"; exit 1; }
git apply "$OUT/patch$N.diff"
# resources changed? re-run build scripts
if git diff --name-only | grep -q resources/; then touch precis-core/build.rs precis-profiles/build.rs; fi
suite=$(cargo test --workspace --no-fail-fast --offline 2>&1 | grep -E "^test result" | awk '{p+=$4; f+=$6} END {print p" passed "f" failed"}')
echo "suite with patch: $suite"
mkdir -p "$(dirname "$demo_dst")"; cp "$OUT/demo$N.rs" "$demo_dst"
cargo test -p "$crate" --test "$tname" --offline >/tmp/seedwork/verify-$$.log 2>&1; rc_with=$?
echo "demo with patch: exit $rc_with ($(grep -E '^test result' /tmp/seedwork/verify-$$.log | head -1))"
git checkout -q -- .
if git status --porcelain | grep -q resources/; then :; fi
touch precis-core/build.rs precis-profiles/build.rs 2>/dev/null
cargo test -p "$crate" --test "$tname" --offline >/tmp/seedwork/verify-$$.log 2>&1; rc_without=$?
echo "demo without patch: exit $rc_without ($(grep -E '^test result' /tmp/seedwork/verify-$$.log | head -1))"
rm -f "$demo_dst" /tmp/seedwork/verify-$$.log
git checkout -q -- . ; git clean -fdq -e target
case "$suite" in *" 0 failed") ok_suite=1;; *) ok_suite=0;; esac
if [ $ok_suite = 1 ] && [ $rc_with -ne 0 ] && [ $rc_without -eq 0 ]; then echo "SEED-CONFIRMED"; exit 0; else echo "SEED-REJECTED"; exit 1; fi
